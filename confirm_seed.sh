#!/bin/bash
# usage: confirm_seed.sh <seed-out-dir> <property-id> <name>
# Confirms in a scratch worktree: demo fails with the patch, passes without, existing tests pass with the patch.
# On success stores the seed under /verif/seeded/<name>/.
set -u
D="$1"; PID="$2"; NAME="$3"
export GOFLAGS=-mod=mod GOPROXY=off
WT=/tmp/seedconfirm.$$
git -C /repo worktree add --detach $WT HEAD >/dev/null 2>&1 || exit 2
trap 'git -C /repo worktree remove --force $WT >/dev/null 2>&1' EXIT
cd $WT
place=$(head -1 $D/demo_test.go | sed -n 's,^// place in: *,,p' | awk '{print $1}')
[ -z "$place" ] && place=.
cp $D/demo_test.go $WT/$place/zz_seed_demo_test.go
pkg=./$place
run_demo() { go test -vet=off -count=1 -timeout 120s -run 'Seed|Demo|C[0-9][0-9]' $pkg 2>&1 | tail -5; return ${PIPESTATUS[0]}; }
echo "--- demo on clean tree (expect PASS)"; run_demo; clean=$?
git apply $D/patch.diff || { echo "PATCH DOES NOT APPLY"; exit 3; }
echo "--- demo with patch (expect FAIL)"; run_demo; mut=$?
rm -f $WT/$place/zz_seed_demo_test.go
echo "--- existing tests with patch (expect same as baseline)"
go test -vet=off -count=1 -timeout 20m $(go list ./... | grep -v -E 'pfring|examples|afpacket|/pcap$|routing|dumpcommand|macs') 2>&1 | grep -v "^ok\|no test files" | grep -v "TestEthernetHandle_Close" | tail -15
suite=${PIPESTATUS[0]}
echo "clean=$clean mutated=$mut"
if [ $clean -eq 0 ] && [ $mut -ne 0 ]; then
  mkdir -p /verif/seeded/$NAME
  cp $D/patch.diff $D/demo_test.go /verif/seeded/$NAME/
  [ -f $D/notes.md ] && cp $D/notes.md /verif/seeded/$NAME/
  echo CONFIRMED
else
  echo NOT-CONFIRMED
fi
