package main

import (
	"crypto/sha256"
	"fmt"
	"go/ast"
	"go/token"
	"go/types"
	"os"
	"sort"
	"strings"
	"sync"

	"golang.org/x/tools/go/ast/astutil"
	"golang.org/x/tools/go/packages"
	"golang.org/x/tools/go/ssa"
	"golang.org/x/tools/go/ssa/ssautil"
)

type Engine struct {
	repo    string
	modPath string
	prog    *ssa.Program
	pkgs    []*packages.Package
	spkgs   map[string]*ssa.Package

	contracts     map[string]*Contract
	specs         map[string]*SpecFn
	specsByName   map[string]*SpecFn
	lemmas        []*Lemma
	contractFiles []string
	ifaceCts      map[string]*Contract
	writers       []*WritersClause
	externCts     map[string]*Contract

	keyMu   sync.Mutex
	keyInfo map[string]keyInfo
	modMu   sync.Mutex
	mods    map[*ssa.Function]*ModSet
	inlMu   sync.Mutex
	inl     map[*ssa.Function]bool

	idMu    sync.Mutex
	typeIDs map[string]int
	typeByID map[int]types.Type
	strIDs  map[string]int
	kindIDs map[string]int
	strByID  map[int]bool
	kindByID map[int]bool

	astMu    sync.Mutex
	astFiles map[string]*ast.File
	srcCache map[string][]byte

	autoPosts sync.Map
	boxes    sync.Map
	closures sync.Map

	noteMu     sync.Mutex
	derived    map[string]bool
	inlined    map[string]bool
	externals  map[string]bool
	invokes    map[string]bool
	ctUsed     map[string]bool
	engineErrs []string

	allFns  []*ssa.Function
	fnByKey map[string]*ssa.Function
	classes map[string]bool // obligation classes wanted in this run (nil: all)
	opts    Options
	skipObl map[string]bool
	pwMu    sync.Mutex
	pw      map[*ssa.Function]map[int]bool
	pbU     map[*ssa.Function]map[string]bool
	nonNilG map[*ssa.Global]bool
	implMu  sync.Mutex
	implC   map[string][]*ssa.Function
}

type Options struct {
	TimeoutMs int
	Verbose   bool
	Tier      string
	DumpDir   string
	RefuteQF  bool // look for counterexamples of undecided obligations on the quantifier-free part of the context
}

func (e *Engine) wantClass(c string) bool {
	if e.classes == nil {
		return true
	}
	return e.classes[c]
}

func (e *Engine) engineError(err error) {
	e.noteMu.Lock()
	e.engineErrs = append(e.engineErrs, err.Error())
	e.noteMu.Unlock()
}

func (e *Engine) noteDerived(f *ssa.Function) {
	e.noteMu.Lock()
	e.derived[e.fnKey(f)] = true
	e.noteMu.Unlock()
}
func (e *Engine) noteInlined(f *ssa.Function) {
	e.noteMu.Lock()
	e.inlined[e.fnKey(f)] = true
	e.noteMu.Unlock()
}
func (e *Engine) noteExternal(n string) {
	e.noteMu.Lock()
	e.externals[n] = true
	e.noteMu.Unlock()
}
func (e *Engine) noteInvoke(n string) {
	e.noteMu.Lock()
	e.invokes[n] = true
	e.noteMu.Unlock()
}
func (e *Engine) noteContractUse(n string) {
	e.noteMu.Lock()
	e.ctUsed[n] = true
	e.noteMu.Unlock()
}
func (e *Engine) noteRead(c *fnCtx, buf *Val, arr string) {
	c.reads = append(c.reads, readEvent{buf: buf, contents: arr})
}

func newEngine(repo string) *Engine {
	return &Engine{repo: repo, modPath: "github.com/gopacket/gopacket",
		contracts: map[string]*Contract{}, specs: map[string]*SpecFn{}, specsByName: map[string]*SpecFn{}, ifaceCts: map[string]*Contract{}, externCts: map[string]*Contract{},
		keyInfo: map[string]keyInfo{}, mods: map[*ssa.Function]*ModSet{}, inl: map[*ssa.Function]bool{},
		typeIDs: map[string]int{}, typeByID: map[int]types.Type{}, strIDs: map[string]int{}, kindIDs: map[string]int{}, strByID: map[int]bool{}, kindByID: map[int]bool{},
		astFiles: map[string]*ast.File{}, srcCache: map[string][]byte{},
		derived: map[string]bool{}, inlined: map[string]bool{}, externals: map[string]bool{}, invokes: map[string]bool{}, ctUsed: map[string]bool{},
		fnByKey: map[string]*ssa.Function{}, spkgs: map[string]*ssa.Package{}, implC: map[string][]*ssa.Function{}, pw: map[*ssa.Function]map[int]bool{}, pbU: map[*ssa.Function]map[string]bool{}, nonNilG: map[*ssa.Global]bool{}}
}

func (e *Engine) load(patterns []string) error {
	cfg := &packages.Config{Mode: packages.LoadAllSyntax, Dir: e.repo, Tests: false, BuildFlags: []string{"-tags=verif", "-mod=mod"},
		Env: append(os.Environ(), "GOFLAGS=-mod=mod", "GOPROXY=off")}
	pkgs, err := packages.Load(cfg, patterns...)
	if err != nil {
		return err
	}
	nerr := 0
	packages.Visit(pkgs, nil, func(p *packages.Package) {
		for _, er := range p.Errors {
			if strings.HasPrefix(p.PkgPath, e.modPath) {
				fmt.Fprintf(os.Stderr, "load error: %s: %v\n", p.PkgPath, er)
				nerr++
			}
		}
	})
	if nerr > 0 {
		return fmt.Errorf("%d load errors", nerr)
	}
	e.pkgs = pkgs
	prog, spkgs := ssautil.AllPackages(pkgs, ssa.InstantiateGenerics|ssa.GlobalDebug)
	prog.Build()
	e.prog = prog
	for i, sp := range spkgs {
		if sp != nil {
			e.spkgs[pkgs[i].PkgPath] = sp
		}
	}
	for _, p := range pkgs {
		for _, f := range p.Syntax {
			e.astFiles[prog.Fset.Position(f.Pos()).Filename] = f
		}
	}
	// enumerate module functions (including methods and anonymous functions)
	seen := map[*ssa.Function]bool{}
	var add func(f *ssa.Function)
	add = func(f *ssa.Function) {
		if f == nil || seen[f] || f.Blocks == nil {
			return
		}
		seen[f] = true
		if f.Synthetic != "" && !strings.Contains(f.Synthetic, "instance") {
			return
		}
		e.allFns = append(e.allFns, f)
		for _, a := range f.AnonFuncs {
			add(a)
		}
	}
	for _, sp := range spkgs {
		if sp == nil {
			continue
		}
		var names []string
		for n := range sp.Members {
			names = append(names, n)
		}
		sort.Strings(names)
		for _, n := range names {
			switch m := sp.Members[n].(type) {
			case *ssa.Function:
				add(m)
			case *ssa.Type:
				for _, T := range []types.Type{m.Type(), types.NewPointer(m.Type())} {
					ms := prog.MethodSets.MethodSet(T)
					for i := 0; i < ms.Len(); i++ {
						add(prog.MethodValue(ms.At(i)))
					}
				}
			}
		}
	}
	sort.Slice(e.allFns, func(i, j int) bool { return e.fnKey(e.allFns[i]) < e.fnKey(e.allFns[j]) })
	for _, f := range e.allFns {
		k := e.fnKey(f)
		if _, dup := e.fnByKey[k]; !dup {
			e.fnByKey[k] = f
		}
	}
	if err := e.parseContracts(pkgs); err != nil {
		return err
	}
	for k := range e.contracts {
		if _, ok := e.fnByKey[k]; !ok && !strings.Contains(k, ".iface.") {
			return fmt.Errorf("contract for unknown function %s", k)
		}
	}
	e.computeAllMods()
	return nil
}

// computeAllMods iterates the write-set analysis to a fixed point over the module call graph.
func (e *Engine) computeAllMods() {
	for _, f := range e.allFns {
		e.fnMods(f)
	}
	for round := 0; round < 20; round++ {
		changed := false
		for _, f := range e.allFns {
			m := e.mods[f]
			n := newModSet()
			for _, b := range f.Blocks {
				for _, in := range b.Instrs {
					e.instrMods(n, in, f, nil)
				}
			}
			if m.add(n) {
				changed = true
			}
		}
		if !changed {
			break
		}
	}
}

// fnKey: stable, human-readable function name: pkg.Recv.Method, pkg.Func, pkg.Outer$1
func (e *Engine) fnKey(f *ssa.Function) string {
	if f.Parent() != nil {
		return e.fnKey(f.Parent()) + strings.TrimPrefix(f.Name(), f.Parent().Name())
	}
	pkg := ""
	if f.Pkg != nil {
		pkg = f.Pkg.Pkg.Name()
	} else if f.Origin() != nil && f.Origin().Pkg != nil {
		pkg = f.Origin().Pkg.Pkg.Name()
	}
	if recv := f.Signature.Recv(); recv != nil {
		t := recv.Type()
		if p, ok := t.(*types.Pointer); ok {
			t = p.Elem()
		}
		tn := t.String()
		if n, ok := t.(*types.Named); ok {
			tn = n.Obj().Name()
			if n.Obj().Pkg() != nil {
				pkg = n.Obj().Pkg().Name()
			}
		}
		return pkg + "." + tn + "." + f.Name()
	}
	return pkg + "." + f.Name()
}

func (e *Engine) typeID(t types.Type) int {
	s := types.TypeString(t, nil)
	e.idMu.Lock()
	defer e.idMu.Unlock()
	if id, ok := e.typeIDs[s]; ok {
		return id
	}
	// ids are a function of the name only (not of the order in which concurrently verified functions meet the
	// type): the same source always yields the same SMT script, hence the same solver behaviour
	id := stableID("t:"+s, func(x int) bool { _, used := e.typeByID[x]; return used })
	e.typeIDs[s] = id
	e.typeByID[id] = t
	return id
}

// stableID hashes a name to an id in [2^21, 2^41); on the (practically impossible) collision it probes upwards.
func stableID(name string, used func(int) bool) int {
	h := sha256.Sum256([]byte(name))
	v := 0
	for i := 0; i < 5; i++ {
		v = v<<8 | int(h[i])
	}
	v += 1 << 21
	for used(v) {
		v++
	}
	return v
}

func (e *Engine) strID(s string) int {
	e.idMu.Lock()
	defer e.idMu.Unlock()
	if id, ok := e.strIDs[s]; ok {
		return id
	}
	id := 0
	if s != "" {
		id = stableID("s:"+s, func(x int) bool { return e.strByID[x] })
		e.strByID[id] = true
	}
	e.strIDs[s] = id
	return id
}

func (e *Engine) kindID(s string) int {
	e.idMu.Lock()
	defer e.idMu.Unlock()
	if id, ok := e.kindIDs[s]; ok {
		return id
	}
	id := stableID("k:"+s, func(x int) bool { return e.kindByID[x] })
	e.kindByID[id] = true
	e.kindIDs[s] = id
	return id
}

// implementers of an interface method among module functions
func (e *Engine) implementers(iface *types.Interface, m *types.Func) []*ssa.Function {
	key := iface.String() + "|" + m.Name()
	e.implMu.Lock()
	if r, ok := e.implC[key]; ok {
		e.implMu.Unlock()
		return r
	}
	e.implMu.Unlock()
	var res []*ssa.Function
	for _, p := range e.pkgs {
		if !strings.HasPrefix(p.PkgPath, e.modPath) {
			continue
		}
		sc := p.Types.Scope()
		for _, n := range sc.Names() {
			tn, ok := sc.Lookup(n).(*types.TypeName)
			if !ok || tn.IsAlias() {
				continue
			}
			if _, isI := tn.Type().Underlying().(*types.Interface); isI {
				continue
			}
			for _, T := range []types.Type{tn.Type(), types.NewPointer(tn.Type())} {
				if types.Implements(T, iface) {
					sel := e.prog.MethodSets.MethodSet(T).Lookup(m.Pkg(), m.Name())
					if sel != nil {
						if f := e.prog.MethodValue(sel); f != nil && f.Blocks != nil {
							res = append(res, f)
						}
					}
					break
				}
			}
		}
	}
	e.implMu.Lock()
	e.implC[key] = res
	e.implMu.Unlock()
	return res
}

func (e *Engine) implementerIDs(iface *types.Interface) []int {
	var ids []int
	for _, p := range e.pkgs {
		if !strings.HasPrefix(p.PkgPath, e.modPath) {
			continue
		}
		sc := p.Types.Scope()
		for _, n := range sc.Names() {
			tn, ok := sc.Lookup(n).(*types.TypeName)
			if !ok || tn.IsAlias() {
				continue
			}
			for _, T := range []types.Type{tn.Type(), types.NewPointer(tn.Type())} {
				if _, isI := T.Underlying().(*types.Interface); isI {
					continue
				}
				if types.Implements(T, iface) {
					ids = append(ids, e.typeID(T))
				}
			}
		}
	}
	return ids
}

func (e *Engine) ifaceContract(cc *ssa.CallCommon) *Contract {
	t := cc.Value.Type()
	n, ok := t.(*types.Named)
	if !ok || n.Obj().Pkg() == nil {
		return nil
	}
	return e.ifaceCts[n.Obj().Pkg().Name()+"."+n.Obj().Name()+"."+cc.Method.Name()]
}

// applyIfaceContract: invoke through an interface with a written contract. "this" names the receiver.
func (c *fnCtx) applyIfaceContract(in ssa.Instruction, ct *Contract, cc *ssa.CallCommon, recv *Val, args []*Val, rt types.Type) *Val {
	sig := cc.Method.Type().(*types.Signature)
	mk := func(results []*Val, st, old *State) *evalEnv {
		lk := func(name string) (tv, bool) {
			if name == "this" {
				return tv{v: recv, t: cc.Value.Type()}, true
			}
			for i, n := range ct.ParamNames {
				if n == name && i < len(args) && i < sig.Params().Len() {
					return tv{v: args[i], t: sig.Params().At(i).Type()}, true
				}
			}
			rn := resultNames(sig)
			for i, n := range rn {
				if n == name && i < len(results) && results[i] != nil {
					return tv{v: results[i], t: sig.Results().At(i).Type()}, true
				}
			}
			return tv{}, false
		}
		return &evalEnv{c: c, lookup: lk, st: st, old: old, bound: map[string]tv{}, pkg: ct.Pkg}
	}
	pre := c.st.clone()
	env := mk(nil, c.st, c.st)
	for i, rq := range ct.Requires {
		f, err := c.safeEval(env, rq)
		if err != nil {
			c.eng.engineError(err)
			continue
		}
		c.addObl("pre", in.Pos(), f, fmt.Sprintf("%s requires[%d] %s", ct.Key, i, rq.Src))
	}
	c.passedPtrEffects(cc, args)
	if ct.Modifies != nil {
		c.havocSet(c.eng.contractMods(nil, ct))
	} else {
		c.havocSet(c.eng.invokeMods(cc))
	}
	r := c.result(rt, "ic")
	post := mk(unpackResults(r, rt), c.st, pre)
	for _, en := range ct.Ensures {
		f, err := c.safeEval(post, en)
		if err != nil {
			c.eng.engineError(err)
			continue
		}
		c.em.assert("(=> " + c.reach[c.curB] + " " + f + ")")
	}
	c.eng.noteContractUse(ct.Key)
	c.eng.noteContractUse("ASSUMED " + ct.Key + " (" + ct.Header + ")")
	return r
}

// writersObligations: a field named in a writers clause is stored to (or has its address escape) only inside the
// listed functions. Together with a two-state postcondition proved on each listed function this makes the
// postcondition a history constraint of the field: it holds across any call, however dynamic.
func (e *Engine) writersObligations(prop string) []*Obl {
	var res []*Obl
	for _, w := range e.writers {
		has := false
		for _, p := range w.Props {
			if p == prop {
				has = true
			}
		}
		if !has {
			continue
		}
		allowed := map[string]bool{}
		for _, a := range w.Allowed {
			allowed[a] = true
		}
		var bad []string
		seenBad := map[string]bool{}
		found := false
		for _, f := range e.allFns {
			if f.Blocks == nil {
				continue
			}
			for _, b := range f.Blocks {
				for _, in := range b.Instrs {
					fa, ok := in.(*ssa.FieldAddr)
					if !ok {
						continue
					}
					pt, ok := fa.X.Type().Underlying().(*types.Pointer)
					if !ok {
						continue
					}
					nt, ok := pt.Elem().(*types.Named)
					if !ok || nt.Obj().Pkg() != w.Pkg || nt.Obj().Name() != w.Type {
						continue
					}
					st, ok := nt.Underlying().(*types.Struct)
					if !ok || st.Field(fa.Field).Name() != w.Field {
						continue
					}
					found = true
					writes := false
					for _, u := range *fa.Referrers() {
						switch x := u.(type) {
						case *ssa.UnOp:
							// load
						case *ssa.DebugRef:
						case *ssa.Store:
							if x.Addr == ssa.Value(fa) {
								writes = true
							} else {
								writes = true // the address itself is stored somewhere
							}
						default:
							writes = true // address escapes (call argument, field/index address, phi ...)
						}
					}
					root := f
					for root.Parent() != nil {
						root = root.Parent()
					}
					if writes && !allowed[e.fnKey(root)] && !seenBad[e.fnKey(f)] {
						seenBad[e.fnKey(f)] = true
						bad = append(bad, e.fnKey(f))
					}
				}
			}
		}
		sort.Strings(bad)
		o := &Obl{Class: "writers", Fn: w.Pkg.Name() + "." + w.Type, Text: "only " + strings.Join(w.Allowed, ", ") + " store to " + w.Type + "." + w.Field, Guard: "true", Cond: "true"}
		o.Pos.Filename = w.File
		o.Name = w.Pkg.Name() + "." + w.Type + "." + w.Field + "#writers"
		switch {
		case !found:
			o.Result = "refuted"
			o.Raw = "no access to " + w.Type + "." + w.Field + " found (renamed field?)"
			o.final = true
		case len(bad) == 0:
			o.Result, o.By = "proved", "frame-analysis"
		default:
			o.Result = "refuted"
			o.Raw = "stored to outside the listed functions: " + strings.Join(bad, ", ")
			o.final = true
		}
		res = append(res, o)
	}
	return res
}

// subtypeObligations: every in-module implementer of a contracted interface method stays inside the frame of
// the interface contract (syntactic write-set inclusion). A method whose body only calls its own receiver
// (a named func type) is represented by the functions converted to that type.
func (e *Engine) subtypeObligations(prop string) []*Obl {
	var res []*Obl
	var keys []string
	for k := range e.ifaceCts {
		keys = append(keys, k)
	}
	sort.Strings(keys)
	for _, k := range keys {
		ct := e.ifaceCts[k]
		has := false
		for _, p := range ct.Props {
			if p == prop {
				has = true
			}
		}
		if !has || ct.Modifies == nil {
			continue
		}
		parts := strings.Split(k, ".")
		if len(parts) != 3 {
			continue
		}
		var iface *types.Interface
		var m *types.Func
		for _, p := range e.pkgs {
			if p.Types.Name() != parts[0] {
				continue
			}
			if o := p.Types.Scope().Lookup(parts[1]); o != nil {
				if it, ok := o.Type().Underlying().(*types.Interface); ok {
					iface = it
					for i := 0; i < it.NumMethods(); i++ {
						if it.Method(i).Name() == parts[2] {
							m = it.Method(i)
						}
					}
				}
			}
		}
		if iface == nil || m == nil {
			e.engineError(fmt.Errorf("ifacecontract %s: interface method not found", k))
			continue
		}
		allowed := e.contractMods(nil, ct)
		for _, f := range e.implementers(iface, m) {
			ms := e.fnMods(f)
			if ms.Top {
				if alt := e.funcTypeMods(f); alt != nil {
					ms = alt
				}
			}
			var bad []string
			if ms.Top {
				bad = append(bad, "unknown (dynamic call)")
			}
			for key := range ms.Keys {
				if !allowed.Keys[key] && !strings.HasPrefix(key, "cell:") {
					bad = append(bad, key)
				}
			}
			sort.Strings(bad)
			o := &Obl{Class: "subtype", Fn: e.fnKey(f), Pos: e.prog.Fset.Position(f.Pos()), Text: "writes only what " + k + " may modify", Guard: "true", Cond: "true"}
			o.Name = e.fnKey(f) + "#subtype:" + k
			if len(bad) == 0 {
				o.Result, o.By = "proved", "frame-analysis"
			} else {
				o.Result = "refuted"
				o.Raw = "writes outside the interface contract's frame: " + strings.Join(bad, ", ")
				o.final = true
			}
			res = append(res, o)
		}
	}
	return res
}

// funcTypeMods: for a method on a named func type whose body calls the receiver, the union of the write sets
// of every function value converted to that type anywhere in the module (nil when that is not the shape).
func (e *Engine) funcTypeMods(f *ssa.Function) *ModSet {
	recv := f.Signature.Recv()
	if recv == nil {
		return nil
	}
	rt := recv.Type()
	if _, ok := rt.Underlying().(*types.Signature); !ok {
		return nil
	}
	m := newModSet()
	found := false
	for _, g := range e.allFns {
		for _, b := range g.Blocks {
			for _, in := range b.Instrs {
				var x ssa.Value
				var to types.Type
				switch c := in.(type) {
				case *ssa.ChangeType:
					x, to = c.X, c.Type()
				case *ssa.MakeInterface:
					x, to = c.X, c.X.Type()
				default:
					continue
				}
				if !types.Identical(to, rt) {
					continue
				}
				switch fv := x.(type) {
				case *ssa.MakeClosure:
					m.add(e.fnMods(fv.Fn.(*ssa.Function)))
					found = true
				case *ssa.Function:
					m.add(e.fnMods(fv))
					found = true
				case *ssa.ChangeType:
					if mc, ok := fv.X.(*ssa.MakeClosure); ok {
						m.add(e.fnMods(mc.Fn.(*ssa.Function)))
						found = true
					}
				default:
					if types.Identical(x.Type(), rt) {
						continue
					}
					m.Top = true
				}
			}
		}
	}
	if !found {
		return nil
	}
	return m
}

// ---- source text of an instruction for obligation names -----------------------------------------

func (e *Engine) srcText(pos token.Pos) string {
	if !pos.IsValid() {
		return "?"
	}
	p := e.prog.Fset.Position(pos)
	e.astMu.Lock()
	defer e.astMu.Unlock()
	f := e.astFiles[p.Filename]
	if f == nil {
		return "?"
	}
	src, ok := e.srcCache[p.Filename]
	if !ok {
		src, _ = os.ReadFile(p.Filename)
		e.srcCache[p.Filename] = src
	}
	path, _ := astutil.PathEnclosingInterval(f, pos, pos)
	for _, n := range path {
		switch x := n.(type) {
		case *ast.IndexExpr, *ast.SliceExpr, *ast.CallExpr, *ast.BinaryExpr, *ast.StarExpr, *ast.SelectorExpr, *ast.TypeAssertExpr, *ast.UnaryExpr,
			*ast.CompositeLit, *ast.IncDecStmt, *ast.AssignStmt, *ast.RangeStmt, *ast.ReturnStmt, *ast.Ident:
			_ = x
			s, en := e.prog.Fset.Position(n.Pos()).Offset, e.prog.Fset.Position(n.End()).Offset
			if rs, ok := n.(*ast.RangeStmt); ok {
				en = e.prog.Fset.Position(rs.Body.Pos()).Offset
			}
			if s >= 0 && en <= len(src) && s < en {
				return normalizeSrc(string(src[s:en]))
			}
		}
	}
	return "?"
}

func normalizeSrc(s string) string {
	var b strings.Builder
	for _, r := range s {
		if r == ' ' || r == '\t' || r == '\n' || r == '\r' {
			continue
		}
		b.WriteRune(r)
	}
	return b.String()
}

func shortText(s string) string {
	s = normalizeSrc(s)
	if len(s) <= 56 {
		return s
	}
	h := sha256.Sum256([]byte(s))
	return fmt.Sprintf("%s~%x", s[:44], h[:4])
}

// elemTypeID identifies the element type of an array for the "arrays are typed" axiom (byte == uint8, named
// types by their underlying type).
func (e *Engine) elemTypeID(t types.Type) int {
	u := types.Unalias(t).Underlying()
	if b, ok := u.(*types.Basic); ok {
		return 100000 + int(b.Kind())
	}
	return e.typeID(u)
}

// initOnlyNonNil: the global is an interface-typed package variable whose only assignments are in the package
// initialiser and store the result of a constructor call or a freshly made interface (never nil).
func (e *Engine) initOnlyNonNil(g *ssa.Global) bool {
	e.implMu.Lock()
	if v, ok := e.nonNilG[g]; ok {
		e.implMu.Unlock()
		return v
	}
	e.implMu.Unlock()
	ok := false
	stores := 0
	for _, f := range e.allFnsOfPkg(g.Pkg) {
		for _, b := range f.Blocks {
			for _, in := range b.Instrs {
				st, isSt := in.(*ssa.Store)
				if !isSt || st.Addr != ssa.Value(g) {
					continue
				}
				stores++
				if !strings.HasPrefix(f.Name(), "init") {
					stores += 100
					continue
				}
				switch v := st.Val.(type) {
				case *ssa.MakeInterface:
					ok = true
				case *ssa.Call:
					if cal := v.Call.StaticCallee(); cal != nil && (cal.String() == "errors.New" || cal.String() == "fmt.Errorf") {
						ok = true
					} else if cal != nil && cal.Pkg != nil && cal.Pkg.Pkg.Path() == "flag" && cal.Signature.Recv() == nil && strings.HasPrefix(cal.String(), "flag.") {
						// flag.Bool / Int / String / Duration ...: return a pointer to a freshly allocated value
						if _, isPtr := v.Type().Underlying().(*types.Pointer); isPtr && !token.IsExported(g.Name()) {
							ok = true
						} else {
							stores += 100
						}
					} else {
						stores += 100
					}
				default:
					stores += 100
				}
			}
		}
	}
	res := ok && stores >= 1 && stores < 100
	e.implMu.Lock()
	e.nonNilG[g] = res
	e.implMu.Unlock()
	return res
}

func (e *Engine) allFnsOfPkg(p *ssa.Package) []*ssa.Function {
	var r []*ssa.Function
	for _, m := range p.Members {
		if f, ok := m.(*ssa.Function); ok {
			r = append(r, f)
		}
	}
	return r
}
