package main

import (
	"bytes"
	"context"
	"fmt"
	"go/types"
	"os"
	"os/exec"
	"path/filepath"
	"regexp"
	"sort"
	"strings"
	"sync"
	"time"

	"golang.org/x/tools/go/ssa"
)

type FnResult struct {
	Key       string
	Fn        *ssa.Function
	Obls      []*Obl
	OutOfSub  string // reason when the function is outside the supported subset
	Notes     []string
	Rounds    int
	SolverMs  int64
	HasRecov  bool
	Cands     int
	CandsKept int
	Loops     int
	script    string
	ModelVars []modelVar
	cfg       *FnConfig
	ParamVals []*Val
	FirstIter []string
	Root      bool
	CallSites []*callSite
}

type modelVar struct {
	Label string
	Term  string
}

// FnConfig tells verifyFn how to treat one function in a property's scope.
type FnConfig struct {
	Classes   map[string]bool // obligation classes to keep (nil = all)
	InputData bool            // first []byte parameter is the decoder input (frame-in, cap)
	TrackInit bool
	PB        bool
	NoGlobal  bool
	ReadOnly  bool
	Reset     bool     // C05: every field of the receiver is (re)assigned on each successful return
	AssumeWF  []string // extra entry assumptions (contract-level predicates by name) — unused yet
}

func (e *Engine) newCtx(f *ssa.Function, em *Emit) *fnCtx {
	return &fnCtx{eng: e, em: em, f: f, vals: map[ssa.Value]*Val{}, occ: map[string]int{}, dead: map[string]bool{}, assertHit: map[int]bool{}}
}

// buildVC translates f once (with the given dead-candidate set) and returns the context.
func (e *Engine) buildVC(f *ssa.Function, cfg *FnConfig, dead map[string]bool) (c *fnCtx, err error) {
	return e.buildVC2(f, cfg, dead, false)
}

// buildVC2: panicSide selects the second pass of a panics_iff contract (the condition is assumed on entry and the
// only obligations are "no return is reached").
func (e *Engine) buildVC2(f *ssa.Function, cfg *FnConfig, dead map[string]bool, panicSide bool) (c *fnCtx, err error) {
	em := newEmit()
	c = e.newCtx(f, em)
	c.dead = dead
	c.ct = e.contractOf(f)
	defer func() {
		if r := recover(); r != nil {
			if u, ok := r.(unsupported); ok {
				err = fmt.Errorf("out of subset: %s", u.msg)
				return
			}
			if ee, ok := r.(evalErr); ok {
				err = fmt.Errorf("contract evaluation: %s", ee.msg)
				return
			}
			panic(r)
		}
	}()
	fmt.Fprintf(&em.out, "(declare-fun elem (Int Int) Int)\n(declare-fun elem_arr (Int) Int)\n(declare-fun elem_idx (Int) Int)\n(declare-fun rkind (Int) Int)\n(declare-fun owner (Int) Int)\n(declare-fun atype (Int) Int)\n(assert (= (owner 0) 0))\n")
	c.st = &State{epoch: 0, m: map[string]string{}}
	em.wm0 = c.heapGet("$wm")
	c.reach = map[*ssa.BasicBlock]string{}
	c.curB = f.Blocks[0]
	c.reach[c.curB] = "true"
	// parameters
	for _, p := range f.Params {
		v := c.freshVal(p.Type(), "p_"+sanitize(p.Name()))
		switch v.K {
		case KPtr:
			em.assert("(not (= " + v.T[0] + " 0))")
		case KIface:
			em.assert("(not (= " + v.T[0] + " 0))")
		}
		c.vals[p] = v
		c.params = append(c.params, v)
		c.addModelVars(p.Name(), p.Type(), v)
	}
	c.entry = c.st.clone()
	if cfg != nil {
		g := &ghostCfg{trackInit: cfg.TrackInit, noGlobal: cfg.NoGlobal, readOnly: cfg.ReadOnly}
		if cfg.InputData {
			for i, p := range f.Params {
				if isByteSlice(p.Type()) {
					g.inputArr = c.params[i].T[0]
					g.inputName = p.Name()
					break
				}
			}
		}
		if cfg.PB {
			for _, p := range f.Params {
				if strings.HasSuffix(p.Type().String(), "gopacket.PacketBuilder") {
					g.pb = p
				}
			}
		}
		c.gcfg = g
		if cfg.Reset && f.Signature.Recv() != nil && len(c.params) > 0 && c.params[0].K == KPtr {
			c.resetRecv = c.params[0].T[0]
		}
		if g.pb != nil {
			c.pbSet(0, "0")
			c.pbSet(1, "0")
			c.pbSet(2, "0")
		}
	}
	// requires are assumed at entry
	if c.ct != nil {
		env := c.contractEnv(f, c.params, nil, c.st, c.st)
		for _, rq := range c.ct.Requires {
			fm, er := c.safeEval(env, rq)
			if er != nil {
				return c, er
			}
			em.assert(fm)
		}
		if c.ct.PanicsIff != nil {
			fm, er := c.safeEval(env, c.ct.PanicsIff)
			if er != nil {
				return c, er
			}
			if panicSide {
				// second pass of a panics_iff contract: under the condition no return may be reached
				em.assert(fm)
			} else {
				em.assert("(not " + fm + ")")
			}
		}
		c.entry = c.st.clone()
	}
	c.run()
	if panicSide {
		c.obls = nil
		for ri, r := range c.rets {
			o := &Obl{Class: "post", Fn: c.fnName(), Pos: c.eng.prog.Fset.Position(r.pos), Text: "panics_iff " + c.ct.PanicsIff.Src + ": no normal return when the condition holds", Guard: r.reach, Cond: "false"}
			o.Name = fmt.Sprintf("%s#post:panics_iff/%s", c.fnName(), c.retLabel(ri))
			c.obls = append(c.obls, o)
		}
		return c, nil
	}
	c.checkPost(c.params)
	c.initObligations()
	c.resetObligations()
	if c.ct != nil {
		for ai, as := range c.ct.Asserts {
			if !c.assertHit[ai] && !as.Assume {
				o := &Obl{Class: "assert", Fn: c.fnName(), Pos: c.eng.prog.Fset.Position(f.Pos()), Text: as.Expr.Src, Guard: "true", Cond: "false"}
				o.Name = fmt.Sprintf("%s#assert:%s%d:anchor-missing", o.Fn, as.Callee, as.Ord)
				o.Raw = "the anchored call site does not exist in the function"
				c.obls = append(c.obls, o)
			}
		}
	}
	// vacuity guard: some return must be reachable under everything that was assumed
	for ri, r := range c.rets {
		// every return statement is reachable under everything that was assumed on the way to it
		o := &Obl{Class: "cover", Fn: c.fnName(), Pos: c.eng.prog.Fset.Position(r.pos), Text: "this return is reachable (assumptions are consistent)", Guard: r.reach, Cond: "false", Expect: "sat"}
		o.Name = fmt.Sprintf("%s#cover:%s", c.fnName(), c.retLabel(ri))
		c.obls = append(c.obls, o)
	}
	return c, nil
}

func (c *fnCtx) addModelVars(name string, t types.Type, v *Val) {
	switch v.K {
	case KInt, KBool, KPtr:
		c.modelVars = append(c.modelVars, modelVar{name, v.T[0]})
	case KSlice:
		c.modelVars = append(c.modelVars, modelVar{name + ".len", v.T[2]}, modelVar{name + ".cap", v.T[3]}, modelVar{name + ".arr", v.T[0]}, modelVar{name + ".off", v.T[1]})
	case KStr:
		c.modelVars = append(c.modelVars, modelVar{name + ".len", v.T[1]})
	case KStruct:
		st := t.Underlying().(*types.Struct)
		for i, f := range v.F {
			c.addModelVars(name+"."+st.Field(i).Name(), st.Field(i).Type(), f)
		}
	case KArr:
		if at, ok := t.Underlying().(*types.Array); ok && at.Len() <= 32 && len(v.T) == 1 {
			for i := int64(0); i < at.Len(); i++ {
				c.modelVars = append(c.modelVars, modelVar{fmt.Sprintf("%s[%d]", name, i), fmt.Sprintf("(select %s %d)", v.T[0], i)})
			}
		}
	}
}

// verifyFn runs Houdini rounds until the candidate set is inductive, then solves the real obligations.
func (e *Engine) verifyFn(f *ssa.Function, cfg *FnConfig) *FnResult {
	res := &FnResult{Key: e.fnKey(f), Fn: f, cfg: cfg}
	dead := map[string]bool{}
	var c *fnCtx
	for round := 0; round < 12; round++ {
		res.Rounds = round + 1
		var err error
		d2 := map[string]bool{}
		for k := range dead {
			d2[k] = true
		}
		c, err = e.buildVC(f, cfg, d2)
		if err != nil {
			res.OutOfSub = err.Error()
			return res
		}
		dead = d2
		var hinv []*Obl
		for _, o := range c.obls {
			if o.Class == "hinv" {
				hinv = append(hinv, o)
			}
		}
		if len(hinv) == 0 {
			break
		}
		ms := e.solve(c.em.out.String(), hinv, e.opts.TimeoutMs/2+500, nil, false)
		res.SolverMs += ms
		dropped := 0
		for _, o := range hinv {
			if o.Result != "proved" {
				// name: fn#hinv:loopN:<cand>/where  -> candidate name
				cn := o.candName
				if !dead[cn] {
					dead[cn] = true
					dropped++
				}
			}
		}
		if dropped == 0 {
			break
		}
	}
	res.HasRecov = c.hasRecov
	res.Notes = c.notes
	for _, li := range c.loops {
		res.Loops++
		for _, cd := range li.cands {
			if cd.contract {
				continue
			}
			res.Cands++
			if !dead[cd.name] {
				res.CandsKept++
			}
		}
	}
	var real []*Obl
	for _, o := range c.obls {
		if o.Class == "hinv" {
			continue
		}
		if cfg != nil && cfg.Classes != nil && !cfg.Classes[o.Class] && o.Class != "cover" {
			continue
		}
		real = append(real, o)
	}
	res.script = c.em.out.String()
	res.ModelVars = c.modelVars
	res.ParamVals = c.params
	res.FirstIter = c.firstIter
	res.CallSites = c.callSites
	var toSolve []*Obl
	for _, o := range real {
		if e.skipObl != nil && e.skipObl[o.Name] {
			o.Result = "skipped"
			continue
		}
		toSolve = append(toSolve, o)
	}
	ms := e.solve(res.script, toSolve, e.opts.TimeoutMs, c.modelVars, true)
	res.SolverMs += ms
	if e.opts.RefuteQF {
		// Second chance for a counterexample: under quantified axioms the solvers answer "unknown" instead of "sat".
		// On the quantifier-free part of the context a model is usually found at once; it is only a candidate
		// (the dropped axioms may exclude it) that the replay on the real code has to confirm.
		var unk []*Obl
		for _, o := range toSolve {
			if o.Result == "unknown" && len(o.Any) == 0 && o.Expect == "" && !o.final {
				unk = append(unk, o)
			}
		}
		if len(unk) > 0 && len(unk) <= 80 {
			for _, o := range unk {
				o.Result = ""
			}
			e.runSolver(solvers[0], qfPart(res.script), unk, e.opts.TimeoutMs, c.modelVars)
			for _, o := range unk {
				switch o.Result {
				case "refuted":
					o.By += " (quantifier-free part)"
				default:
					o.Result = "unknown" // a proof against a weaker context would be sound, but keep the verdicts of the full context
					o.By = ""
				}
			}
		}
	}
	if ct := e.contractOf(f); ct != nil && ct.PanicsIff != nil && (cfg == nil || cfg.Classes == nil || cfg.Classes["post"]) {
		// the other direction of panics_iff, on a second translation of the body
		c2, err := e.buildVC2(f, cfg, dead, true)
		if err == nil && c2 != nil {
			var ps []*Obl
			for _, o := range c2.obls {
				if e.skipObl != nil && e.skipObl[o.Name] {
					o.Result = "skipped"
				} else {
					ps = append(ps, o)
				}
				real = append(real, o)
			}
			res.SolverMs += e.solve(c2.em.out.String(), ps, e.opts.TimeoutMs, nil, true)
		}
	}
	res.Obls = real
	return res
}

// ---- solver portfolio -------------------------------------------------------------------------

type solverSpec struct {
	name string
	args func(timeoutMs int) []string
	pre  func(timeoutMs int) string
}

// The z3 budgets are resource limits (deterministic: the same script gives the same verdict whatever the machine
// load), sized at about 0.7 M units per nominal second; the wall-clock timeout is only a backstop at 4x.
func z3Limits(t int) string {
	return fmt.Sprintf("(set-option :rlimit %d)\n(set-option :timeout %d)\n", t*700, 4*t)
}

var solvers = []solverSpec{
	{"z3-new", func(t int) []string { return []string{"-in"} }, z3Limits},
	{"z3", func(t int) []string { return []string{"-in"} }, z3Limits},
	{"cvc5", func(t int) []string {
		return []string{"--incremental", "--lang=smt2", fmt.Sprintf("--tlimit-per=%d", t), "--produce-models"}
	}, func(t int) string { return "(set-logic ALL)\n" }},
}

var markRe = regexp.MustCompile(`^"?@@(\d+)\.(\d+)\.(\d+)"?$`)

// solve discharges obligations with the portfolio. Returns solver wall ms.
func (e *Engine) solve(preamble string, obls []*Obl, timeoutMs int, mv []modelVar, portfolio bool) int64 {
	if len(obls) == 0 {
		return 0
	}
	t0 := time.Now()
	// cover (vacuity) queries run against the quantifier-free part of the context: they look for
	// inconsistent assumptions, and satisfiability under quantified copy/append axioms is beyond the solvers
	var covers, normal []*Obl
	for _, o := range obls {
		if o.Expect == "sat" {
			covers = append(covers, o)
		} else {
			normal = append(normal, o)
		}
	}
	if len(covers) > 0 {
		var qf strings.Builder
		for _, l := range strings.Split(preamble, "\n") {
			if strings.HasPrefix(l, "(assert") && strings.Contains(l, "(forall ") {
				continue
			}
			qf.WriteString(l)
			qf.WriteString("\n")
		}
		e.runSolver(solvers[0], qf.String(), covers, timeoutMs, nil)
		for _, o := range covers {
			if o.Result == "" {
				o.Result = "unknown"
			}
		}
	}
	pending := normal
	for si, sv := range solvers {
		if len(pending) == 0 {
			break
		}
		if si > 0 && !portfolio {
			break
		}
		if si > 0 && len(pending) > 16 {
			// a function with this many undecided queries is beyond the portfolio's reach: do not burn the budget
			break
		}
		e.runSolver(sv, preamble, pending, timeoutMs, mv)
		var next []*Obl
		for _, o := range pending {
			if (o.Result == "unknown" || o.Result == "") && !o.final {
				next = append(next, o)
			}
		}
		pending = next
	}
	// last round: what is still undecided goes to the first solver once more, one query per process (a query that
	// shares an incremental session with two dozen others inherits their instantiations and often answers unknown
	// where the same query alone is decided at once)
	if portfolio && len(pending) > 0 && len(pending) <= 16 {
		var wg sync.WaitGroup
		for _, o := range pending {
			if o.Result != "unknown" && o.Result != "" {
				continue
			}
			wg.Add(1)
			go func(o *Obl) {
				defer wg.Done()
				solverSem <- true
				e.runSolverChunk(solvers[0], preamble, []*Obl{o}, timeoutMs, mv)
				<-solverSem
			}(o)
		}
		wg.Wait()
	}
	for _, o := range obls {
		if o.Result == "" {
			o.Result = "unknown"
		}
	}
	return time.Since(t0).Milliseconds()
}

// queries of an obligation: list of alternatives, each a list of formulas that must be valid.
func oblQueries(o *Obl) [][]string {
	if len(o.Any) > 0 {
		return o.Any
	}
	g := o.Guard
	if g == "" {
		g = "true"
	}
	if o.Expect == "sat" {
		// cover query: asserting (not (not g)) == g ; satisfiable means covered
		return [][]string{{"(not " + g + ")"}}
	}
	return [][]string{{"(=> " + g + " " + o.Cond + ")"}}
}

var solverSem = make(chan bool, 16)

// runSolver splits the obligations into chunks that run as parallel solver processes.
func (e *Engine) runSolver(sv solverSpec, preamble string, obls []*Obl, timeoutMs int, mv []modelVar) {
	chunk := 24
	if timeoutMs > 6000 {
		// large budgets (thorough tier): a chunk runs its queries one after the other, so keep the worst case of one
		// process (every query running into the wall-clock backstop) within a few minutes
		chunk = 6
	}
	if len(obls) <= chunk {
		solverSem <- true
		e.runSolverChunk(sv, preamble, obls, timeoutMs, mv)
		<-solverSem
		return
	}
	var wg sync.WaitGroup
	for i := 0; i < len(obls); i += chunk {
		j := i + chunk
		if j > len(obls) {
			j = len(obls)
		}
		wg.Add(1)
		go func(part []*Obl) {
			defer wg.Done()
			solverSem <- true
			e.runSolverChunk(sv, preamble, part, timeoutMs, mv)
			<-solverSem
		}(obls[i:j])
	}
	wg.Wait()
}

func (e *Engine) runSolverChunk(sv solverSpec, preamble string, obls []*Obl, timeoutMs int, mv []modelVar) {
	var s bytes.Buffer
	s.WriteString(sv.pre(timeoutMs))
	s.WriteString(preamble)
	for i, o := range obls {
		short := len(o.Any) > 2 && sv.name != "cvc5"
		if short {
			// many alternative termination measures: most of them fail, none deserves the full budget
			fmt.Fprintf(&s, "(set-option :rlimit %d)\n", (timeoutMs/4+300)*700)
		}
		for j, alt := range oblQueries(o) {
			for k, f := range alt {
				fmt.Fprintf(&s, "(echo \"@@%d.%d.%d\")\n(push 1)\n(assert (not %s))\n(check-sat)\n", i, j, k, f)
				if len(mv) > 0 && len(o.Any) == 0 && o.Expect == "" {
					s.WriteString("(get-value (")
					for _, m := range mv {
						s.WriteString(m.Term + " ")
					}
					s.WriteString("))\n")
				}
				s.WriteString("(pop 1)\n")
			}
		}
		if short {
			fmt.Fprintf(&s, "(set-option :rlimit %d)\n", timeoutMs*700)
		}
	}
	if e.opts.DumpDir != "" && len(obls) > 0 {
		os.MkdirAll(e.opts.DumpDir, 0755)
		os.WriteFile(filepath.Join(e.opts.DumpDir, sanitize(obls[0].Name)+"."+sv.name+".smt2"), s.Bytes(), 0644)
	}
	// overall budget: every query may use its timeout
	nq := 0
	for _, o := range obls {
		for _, a := range oblQueries(o) {
			nq += len(a)
		}
	}
	budget := time.Duration(nq*timeoutMs*4+20000) * time.Millisecond
	ctx, cancel := context.WithTimeout(context.Background(), budget)
	defer cancel()
	t0 := time.Now()
	cmd := exec.CommandContext(ctx, sv.name, sv.args(timeoutMs)...)
	cmd.Stdin = &s
	out, _ := cmd.CombinedOutput()
	_ = t0
	// parse
	type qres struct{ verdict, model string }
	results := map[[3]int]*qres{}
	var cur *qres
	for _, l := range strings.Split(string(out), "\n") {
		l = strings.TrimSpace(l)
		if m := markRe.FindStringSubmatch(l); m != nil {
			var a, b, cc int
			fmt.Sscan(m[1], &a)
			fmt.Sscan(m[2], &b)
			fmt.Sscan(m[3], &cc)
			cur = &qres{}
			results[[3]int{a, b, cc}] = cur
			continue
		}
		if cur == nil {
			continue
		}
		switch {
		case cur.verdict == "" && (l == "sat" || l == "unsat" || l == "unknown" || l == "timeout"):
			cur.verdict = l
		case cur.verdict == "" && strings.HasPrefix(l, "(error"):
			cur.verdict = "error:" + l
		case cur.verdict == "sat" && !strings.HasPrefix(l, "(error"):
			cur.model += l + "\n"
		}
	}
	for i, o := range obls {
		alts := oblQueries(o)
		anyProved := false
		anySat := false
		var raw []string
		for j, alt := range alts {
			all := true
			for k := range alt {
				r := results[[3]int{i, j, k}]
				v := "missing"
				if r != nil {
					v = r.verdict
				}
				raw = append(raw, v)
				if v != "unsat" {
					all = false
				}
				if v == "sat" {
					anySat = true
					if len(alts) == 1 && r.model != "" {
						o.Model = parseModel(r.model, mv)
					}
				}
			}
			if all {
				anyProved = true
			}
		}
		o.Raw = strings.Join(raw, ",")
		if o.Expect == "sat" {
			switch {
			case anySat:
				o.Result, o.By = "proved", sv.name
			case anyProved:
				o.Result, o.By = "refuted", sv.name
				o.Raw += " (vacuous: no return reachable)"
				o.final = true
			default:
				if o.Result == "" {
					o.Result = "unknown"
				}
			}
			continue
		}
		switch {
		case anyProved:
			o.Result = "proved"
			o.By = sv.name
		case len(alts) == 1 && anySat:
			o.Result = "refuted"
			o.By = sv.name
		default:
			if o.Result == "" || o.Result == "unknown" {
				o.Result = "unknown"
				// every alternative definitely fails: no point in asking another solver
				defin := true
				for _, v := range raw {
					if v != "sat" && v != "unsat" {
						defin = false
					}
				}
				if len(alts) > 1 && defin {
					o.Raw += " (no candidate measure works)"
					o.final = true
				}
			}
		}
	}
}

var valRe = regexp.MustCompile(`\(\s*((?:\([^()]*(?:\([^()]*(?:\([^()]*\)[^()]*)*\)[^()]*)*\))|[^\s()]+)\s+(\(- \d+\)|-?\d+|true|false)\)`)

// parseModel reads a (get-value ...) answer positionally.
func parseModel(s string, mv []modelVar) map[string]string {
	m := map[string]string{}
	// values appear in order; extract trailing value of each pair by scanning balanced pairs
	vals := extractValues(s)
	for i, v := range vals {
		if i < len(mv) {
			m[mv[i].Label] = v
		}
	}
	return m
}

// extractValues parses "((t1 v1) (t2 v2) ...)" returning v1, v2, ... (ints as decimal strings, bools).
func extractValues(s string) []string {
	s = strings.TrimSpace(s)
	var out []string
	depth := 0
	start := -1
	for i := 0; i < len(s); i++ {
		switch s[i] {
		case '(':
			depth++
			if depth == 2 {
				start = i
			}
		case ')':
			if depth == 2 && start >= 0 {
				pair := s[start+1 : i]
				out = append(out, lastValue(pair))
				start = -1
			}
			depth--
		}
	}
	return out
}

func lastValue(pair string) string {
	pair = strings.TrimSpace(pair)
	// value is the last balanced s-expression
	if strings.HasSuffix(pair, ")") {
		d := 0
		for i := len(pair) - 1; i >= 0; i-- {
			if pair[i] == ')' {
				d++
			} else if pair[i] == '(' {
				d--
				if d == 0 {
					v := pair[i:]
					v = strings.TrimSpace(v)
					if strings.HasPrefix(v, "(-") {
						return "-" + strings.TrimSpace(strings.TrimSuffix(strings.TrimPrefix(v, "(-"), ")"))
					}
					return v
				}
			}
		}
	}
	i := strings.LastIndexAny(pair, " \t\n")
	return pair[i+1:]
}

func sortedKeys(m map[string]bool) []string {
	var ks []string
	for k := range m {
		ks = append(ks, k)
	}
	sort.Strings(ks)
	return ks
}
