package main

import (
	"bytes"
	"fmt"
	"go/types"
	"os"
	"os/exec"
	"strconv"
	"strings"

	"golang.org/x/tools/go/ssa"
)

// Counterexample lifting: a refuted obligation of a helper function comes with a model of the helper's own
// parameters. A helper may rely on what its callers check, so that model alone says nothing about the property.
// The model is therefore pushed up the static call graph: at every call site of the helper (in a function of
// the scope) the caller's verification condition is asked for an input that reaches the call with arguments of
// the same shape (integer values, slice / string lengths, optionally leading bytes). This is repeated until a
// root (a public decode entry point) is reached; the root input is then replayed on the real code, and only a
// panic at the helper's source line confirms the violation. Nothing here proves anything: it only turns
// refutations of helpers into concrete failing inputs of entry points.

var liftN int

type liftCaller struct {
	res  *FnResult
	site *callSite
}

// paramTerms lists the SMT terms of a function's parameters whose values define the "shape" of a call.
// kind: int | bool | len | plen (length of the slice a pointer parameter points to) | byte
type shapeTerm struct {
	param int
	kind  string
	idx   int
	term  string
}

func heapTermOf(st *State, script, key string) string {
	if t, ok := st.m[key]; ok {
		return t
	}
	name := fmt.Sprintf("H%d_%s", st.epoch, smtKey(key))
	if strings.Contains(script, "(declare-const "+name+" ") {
		return name
	}
	return ""
}

func (e *Engine) shapeTerms(f *ssa.Function, vals []*Val, st *State, script string, nbytes int) []shapeTerm {
	var ts []shapeTerm
	for i, p := range f.Params {
		if i >= len(vals) || vals[i] == nil {
			break
		}
		v := vals[i]
		switch v.K {
		case KInt:
			ts = append(ts, shapeTerm{i, "int", 0, v.T[0]})
		case KBool:
			ts = append(ts, shapeTerm{i, "bool", 0, v.T[0]})
		case KStr:
			if len(v.T) > 1 {
				ts = append(ts, shapeTerm{i, "len", 0, v.T[1]})
			}
		case KSlice:
			ts = append(ts, shapeTerm{i, "len", 0, v.T[2]})
			if isByteSlice(p.Type()) && nbytes > 0 {
				if h := heapTermOf(st, script, "elem:uint8"); h != "" {
					for k := 0; k < nbytes; k++ {
						ts = append(ts, shapeTerm{i, "byte", k, fmt.Sprintf("(select (select %s %s) (+ %s %d))", h, v.T[0], v.T[1], k)})
					}
				}
			}
		case KPtr:
			pt, ok := p.Type().Underlying().(*types.Pointer)
			if !ok {
				continue
			}
			if _, isSl := pt.Elem().Underlying().(*types.Slice); isSl {
				base, idx := cellKey(pt.Elem()), v.T[0]
				if v.P != nil {
					if v.P.Op || v.P.Arr != "" {
						continue
					}
					base, idx = v.P.Key, v.P.Idx
				}
				comp := func(suf string) string {
					if h := heapTermOf(st, script, base+suf); h != "" {
						return "(select " + h + " " + idx + ")"
					}
					return ""
				}
				if l := comp("#len"); l != "" {
					ts = append(ts, shapeTerm{i, "len", 0, l})
					arr, off := comp("#arr"), comp("#off")
					if isByteSlice(pt.Elem()) && nbytes > 0 && arr != "" && off != "" {
						if h := heapTermOf(st, script, "elem:uint8"); h != "" {
							for k := 0; k < nbytes; k++ {
								ts = append(ts, shapeTerm{i, "byte", k, fmt.Sprintf("(select (select %s %s) (+ %s %d))", h, arr, off, k)})
							}
						}
					}
				}
			}
		}
	}
	return ts
}

// solveShape asks z3 for a model of script + asserts and returns the values of the given shape terms.
func solveShape(script string, asserts, soft []string, terms []shapeTerm, timeoutMs int) (map[string]string, bool) {
	var s bytes.Buffer
	fmt.Fprintf(&s, "(set-option :timeout %d)\n", timeoutMs)
	s.WriteString(qfPart(script))
	for _, a := range asserts {
		s.WriteString("(assert " + a + ")\n")
	}
	for _, a := range soft {
		s.WriteString("(assert-soft " + a + ")\n")
	}
	s.WriteString("(check-sat)\n")
	if len(terms) > 0 {
		s.WriteString("(get-value (")
		for _, t := range terms {
			s.WriteString(t.term + " ")
		}
		s.WriteString("))\n")
	}
	if d := os.Getenv("DEBUGLIFTDIR"); d != "" {
		liftN++
		os.WriteFile(fmt.Sprintf("%s/lift_%d.smt2", d, liftN), s.Bytes(), 0644)
	}
	cmd := exec.Command("z3-new", "-in")
	cmd.Stdin = &s
	out, _ := cmd.CombinedOutput()
	str := strings.TrimSpace(string(out))
	if os.Getenv("DEBUGLIFT") != "" {
		fmt.Fprintf(os.Stderr, "LIFT   query %d -> %.40s\n", liftN, str)
	}
	if !strings.HasPrefix(str, "sat") {
		return nil, false
	}
	vals := extractValues(str[3:])
	m := map[string]string{}
	for i, t := range terms {
		if i < len(vals) {
			m[fmt.Sprintf("%d.%s.%d", t.param, t.kind, t.idx)] = vals[i]
		}
	}
	return m, true
}

// liftToRoot: from a model of `res` (a non-root function) violating `viol` (a formula over res's script that is
// already known satisfiable) find a root function and an input model of it. Returns the root result and a model
// in the format buildReplay expects.
func (e *Engine) liftToRoot(res *FnResult, viol, soft []string, callers map[*ssa.Function][]liftCaller, isRoot map[*ssa.Function]bool, withBytes bool, depth int, budget *int) (*FnResult, map[string]string) {
	if depth > 4 || *budget <= 0 {
		return nil, nil
	}
	nb := 0
	if withBytes {
		nb = 48
	}
	// shape of the violating call of res
	entrySt := &State{epoch: 0, m: map[string]string{}}
	hterms := e.shapeTerms(res.Fn, res.ParamVals, entrySt, res.script, nb)
	if len(hterms) == 0 {
		return nil, nil
	}
	*budget--
	hm, ok := solveShape(res.script, append(append([]string{}, viol...), res.FirstIter...), soft, hterms, 6000)
	if !ok && depth == 0 && len(res.FirstIter) > 0 {
		// the helper's own failing iteration may be a later one: any input of the helper is realisable as such.
		// (Callers further up must reach the call in first iterations: a cut loop makes later ones unconstrained.)
		*budget--
		hm, ok = solveShape(res.script, viol, soft, hterms, 6000)
	}
	if os.Getenv("DEBUGLIFT") != "" {
		fmt.Fprintf(os.Stderr, "LIFT depth=%d fn=%s ok=%v terms=%d callers=%d model=%v\n", depth, e.fnKey(res.Fn), ok, len(hterms), len(callers[res.Fn]), trimModel(hm))
	}
	if !ok {
		return nil, nil
	}
	for _, lc := range callers[res.Fn] {
		g := lc.res
		if g.script == "" || g.Fn == res.Fn {
			continue
		}
		// constraints at the call site: same shape as the helper's model
		cterms := e.shapeTerms(res.Fn, lc.site.args, lc.site.st, g.script, nb)
		cons := []string{lc.site.reach}
		var softCons []string
		matched := 0
		for _, ct := range cterms {
			key := fmt.Sprintf("%d.%s.%d", ct.param, ct.kind, ct.idx)
			v, ok := hm[key]
			if !ok || v == "" {
				continue
			}
			if ct.kind == "byte" {
				// only bytes inside the helper's slice matter
				ln, _ := strconv.Atoi(hm[fmt.Sprintf("%d.len.0", ct.param)])
				if ct.idx >= ln {
					continue
				}
			}
			if strings.HasPrefix(v, "-") {
				v = "(- " + v[1:] + ")"
			}
			if ct.kind == "byte" {
				// contents are matched as far as the caller's own path condition allows
				softCons = append(softCons, "(= "+ct.term+" "+v+")")
				continue
			}
			cons = append(cons, "(= "+ct.term+" "+v+")")
			matched++
		}
		if matched == 0 {
			continue
		}
		if isRoot[g.Fn] {
			*budget--
			m := e.rootModel(g, cons, softCons)
			if os.Getenv("DEBUGLIFT") != "" {
				fmt.Fprintf(os.Stderr, "LIFT   root %s matched=%d found=%v\n", e.fnKey(g.Fn), matched, m != nil)
			}
			if m != nil {
				return g, m
			}
			continue
		}
		if rr, m := e.liftToRoot(g, cons, softCons, callers, isRoot, withBytes, depth+1, budget); rr != nil {
			return rr, m
		}
	}
	return nil, nil
}

// rootModel: concrete input of a root function satisfying extra constraints (same output format as modelPass).
func (e *Engine) rootModel(res *FnResult, cons, soft []string) map[string]string {
	f := res.Fn
	var terms []modelVar
	var extra []string
	for i, p := range f.Params {
		if i >= len(res.ParamVals) {
			break
		}
		v := res.ParamVals[i]
		switch v.K {
		case KInt, KBool:
			terms = append(terms, modelVar{p.Name(), v.T[0]})
		case KStr:
			terms = append(terms, modelVar{p.Name() + ".len", v.T[1]})
			extra = append(extra, fmt.Sprintf("(<= %s %d)", v.T[1], replayByteLimit))
		case KSlice:
			terms = append(terms, modelVar{p.Name() + ".len", v.T[2]})
			extra = append(extra, fmt.Sprintf("(<= %s %d)", v.T[2], replayByteLimit))
			if isByteSlice(p.Type()) && strings.Contains(res.script, "H0_elem_uint8 ") {
				for k := 0; k < replayByteLimit; k++ {
					terms = append(terms, modelVar{fmt.Sprintf("%s[%d]", p.Name(), k), fmt.Sprintf("(select (select H0_elem_uint8 %s) (+ %s %d))", v.T[0], v.T[1], k)})
				}
			}
		}
	}
	if len(terms) == 0 {
		return nil
	}
	for attempt := 0; attempt < 2; attempt++ {
		var s bytes.Buffer
		fmt.Fprintf(&s, "(set-option :timeout %d)\n", 8000)
		s.WriteString(qfPart(res.script))
		for _, x := range extra {
			s.WriteString("(assert " + x + ")\n")
		}
		for _, x := range cons {
			s.WriteString("(assert " + x + ")\n")
		}
		for _, x := range soft {
			s.WriteString("(assert-soft " + x + ")\n")
		}
		if attempt == 1 {
			break // only inputs that reach the call with every loop in its first iteration are realisable from the entry
		}
		for _, fi := range res.FirstIter {
			s.WriteString("(assert " + fi + ")\n")
		}
		s.WriteString("(check-sat)\n(get-value (")
		for _, t := range terms {
			s.WriteString(t.Term + " ")
		}
		s.WriteString("))\n")
		if d := os.Getenv("DEBUGLIFTDIR"); d != "" {
			liftN++
			os.WriteFile(fmt.Sprintf("%s/root_%d.smt2", d, liftN), s.Bytes(), 0644)
		}
		cmd := exec.Command("z3-new", "-in")
		cmd.Stdin = &s
		out, _ := cmd.CombinedOutput()
		str := strings.TrimSpace(string(out))
		if strings.HasPrefix(str, "sat") {
			return parseModel(str[3:], terms)
		}
	}
	return nil
}

func trimModel(m map[string]string) map[string]string {
	r := map[string]string{}
	for k, v := range m {
		if !strings.Contains(k, ".byte.") || strings.HasSuffix(k, ".byte.0") {
			r[k] = v
		}
	}
	return r
}

// qfPart drops the quantified assertions of a script: satisfiability (model finding) under quantified copy /
// append axioms is beyond the solvers; a model of the rest is a candidate that the replay on the real code judges.
func qfPart(script string) string {
	var b strings.Builder
	for _, l := range strings.Split(script, "\n") {
		if strings.HasPrefix(l, "(assert") && strings.Contains(l, "(forall ") {
			continue
		}
		b.WriteString(l)
		b.WriteString("\n")
	}
	return b.String()
}
