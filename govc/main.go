package main

import (
	"flag"
	"fmt"
	"os"
	"regexp"
	"sort"
	"sync"
	"time"

	"golang.org/x/tools/go/ssa"
)

var corePkgs = []string{".", "./layers", "./pcapgo", "./reassembly", "./tcpassembly", "./ip4defrag", "./ip6defrag"}

func main() {
	if len(os.Args) < 2 {
		fmt.Fprintln(os.Stderr, "usage: govc sweep|check ...")
		os.Exit(2)
	}
	switch os.Args[1] {
	case "sweep":
		sweepCmd(os.Args[2:])
	case "check":
		checkCmd(os.Args[2:])
	default:
		fmt.Fprintln(os.Stderr, "unknown command")
		os.Exit(2)
	}
}

func (e *Engine) verifyAll(fns []*ssa.Function, cfgOf func(*ssa.Function) *FnConfig) []*FnResult {
	results := make([]*FnResult, len(fns))
	var wg sync.WaitGroup
	sem := make(chan bool, 24)
	for i, f := range fns {
		wg.Add(1)
		sem <- true
		go func(i int, f *ssa.Function) {
			defer wg.Done()
			defer func() { <-sem }()
			defer func() {
				if r := recover(); r != nil {
					results[i] = &FnResult{Key: e.fnKey(f), Fn: f, OutOfSub: fmt.Sprintf("engine panic: %v", r)}
				}
			}()
			results[i] = e.verifyFn(f, cfgOf(f))
		}(i, f)
	}
	wg.Wait()
	return results
}

func sweepCmd(args []string) {
	fs := flag.NewFlagSet("sweep", flag.ExitOnError)
	filter := fs.String("f", "DecodeFromBytes", "function key regexp")
	timeout := fs.Int("t", 5000, "ms per query")
	verbose := fs.Bool("v", false, "")
	dump := fs.String("dump", "", "dump SMT scripts to dir")
	repo := fs.String("repo", "/repo", "")
	input := fs.Bool("input", false, "treat first []byte param as decoder input")
	doReplay := fs.Bool("replay", false, "replay refuted safety obligations on the real code")
	doReset := fs.Bool("reset", false, "C05 reset obligations")
	doInit := fs.Bool("init", false, "C07 init ghost")
	doPB := fs.Bool("pb", false, "PacketBuilder typestate / progress")
	fs.Parse(args)
	t0 := time.Now()
	e := newEngine(*repo)
	e.opts = Options{TimeoutMs: *timeout, Verbose: *verbose, DumpDir: *dump}
	if err := e.load(corePkgs); err != nil {
		fmt.Fprintln(os.Stderr, "load:", err)
		os.Exit(2)
	}
	fmt.Printf("loaded in %.1fs, %d functions, %d contracts\n", time.Since(t0).Seconds(), len(e.allFns), len(e.contracts))
	re := regexp.MustCompile(*filter)
	var fns []*ssa.Function
	for _, f := range e.allFns {
		if re.MatchString(e.fnKey(f)) {
			fns = append(fns, f)
		}
	}
	if os.Getenv("DEBUGAUTOPOST") != "" {
		for _, f := range fns {
			ps := e.autoPost(f)
			v, _ := e.autoPosts.Load(f)
			if v != nil {
				ar := v.(*autoPostResult)
				fmt.Printf("AUTOPOST %s tried=%d proved=%v n=%d\n", e.fnKey(f), len(ar.tried), ar.proved, len(ps))
			}
		}
	}
	t1 := time.Now()
	results := e.verifyAll(fns, func(f *ssa.Function) *FnConfig { return &FnConfig{InputData: *input, NoGlobal: *input, Reset: *doReset, TrackInit: *doInit, PB: *doPB} })
	tot, proved, ref, unk, oos, clean := 0, 0, 0, 0, 0, 0
	for _, r := range results {
		if r.OutOfSub != "" {
			oos++
			fmt.Printf("SKIP %-60s %s\n", r.Key, r.OutOfSub)
			continue
		}
		p, rf, u := 0, 0, 0
		for _, o := range r.Obls {
			switch o.Result {
			case "proved":
				p++
			case "refuted":
				rf++
			default:
				u++
			}
		}
		tot += len(r.Obls)
		proved += p
		ref += rf
		unk += u
		if rf == 0 && u == 0 {
			clean++
		}
		fmt.Printf("%-64s obl=%3d proved=%3d refuted=%2d unk=%2d rounds=%d cands=%d/%d %dms\n", r.Key, len(r.Obls), p, rf, u, r.Rounds, r.CandsKept, r.Cands, r.SolverMs)
		if os.Getenv("DEBUGDEC") != "" {
			for _, o := range r.Obls {
				if o.Class == "dec" {
					fmt.Printf("   DEC %s result=%s raw=%s\n", o.Name, o.Result, o.Raw)
					for i, a := range o.Any {
						fmt.Printf("      alt%d: %v\n", i, a)
					}
				}
			}
		}
		if *verbose {
			for _, o := range r.Obls {
				if o.Result != "proved" {
					fmt.Printf("    %-8s %s  [%s:%d] %s\n", o.Result, o.Name, shortFile(o.Pos.Filename), o.Pos.Line, o.Raw)
					if len(o.Model) > 0 {
						var ks []string
						for k := range o.Model {
							ks = append(ks, k)
						}
						sort.Strings(ks)
						fmt.Printf("        model:")
						for _, k := range ks {
							fmt.Printf(" %s=%s", k, o.Model[k])
						}
						fmt.Println()
					}
				}
			}
		}
	}
	if *doReplay {
		var cases []*ReplayCase
		for _, r := range results {
			for _, o := range r.Obls {
				if o.Result == "proved" || !replayable[o.Class] {
					continue
				}
				m := e.modelPass(r, o)
				if m == nil {
					fmt.Println("  no model for", o.Name)
					continue
				}
				if rc, ok := e.buildReplay(r, o, m); ok {
					cases = append(cases, rc)
				} else {
					fmt.Println("  no replay for", o.Name)
				}
			}
		}
		e.runReplays(cases)
		for _, rc := range cases {
			fmt.Printf("  REPLAY %s -> %s %s confirms=%v inputs=%v\n", rc.Obl.Name, rc.Outcome, rc.Detail, rc.Confirms, rc.Inputs)
		}
	}
	for _, er := range e.engineErrs {
		fmt.Println("ENGINE ERROR:", er)
	}
	fmt.Printf("functions=%d out-of-subset=%d clean=%d obligations=%d proved=%d refuted=%d unknown=%d wall=%.1fs\n", len(fns), oos, clean, tot, proved, ref, unk, time.Since(t1).Seconds())
}

func shortFile(s string) string {
	for i := len(s) - 1; i >= 0; i-- {
		if s[i] == '/' {
			return s[i+1:]
		}
	}
	return s
}
