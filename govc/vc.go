package main

import (
	"fmt"
	"go/constant"
	"go/token"
	"go/types"
	"sort"
	"strings"

	"golang.org/x/tools/go/ssa"
)

type unsupported struct{ msg string }

// Obl is one proof obligation: under Guard, Cond must hold.  Any (non-empty) means: at least one of
// the alternative obligation groups must be entirely valid (used for termination measures).
type Obl struct {
	Name     string
	Class    string
	Fn       string
	Pos      token.Position
	Text     string
	Guard    string
	Cond     string
	Any      [][]string // alternatives: each a list of formulas "guard => cond" that must all be valid
	Result   string     // proved | refuted | unknown
	By       string     // solver
	Model    map[string]string
	Raw      string
	TimeMs   int64
	Expect   string // "" normal; "sat" for cover (vacuity) queries
	candName string
	final    bool
	Witness  string // reset obligations: formula "the field is assigned at some return" (input that leaves stale state behind)
}

type loopInfo struct {
	header *ssa.BasicBlock
	blocks map[*ssa.BasicBlock]bool
	backs  []*ssa.BasicBlock
	ord    int
	mods   *ModSet
	// candidate invariants (Houdini) and contract invariants
	cands     []*invCand
	entrySt   *State
	hdrState  *State
	phiH      map[*ssa.Phi]*Val // havocked header values
	entryVals map[*ssa.Phi]*Val
	backInfo  []backEdge
	outerSl   []ssa.Value
	outerB    []ssa.Value
}

type backEdge struct {
	from  *ssa.BasicBlock
	guard string
	vals  map[*ssa.Phi]*Val
}

type invCand struct {
	name     string
	eval     func(c *fnCtx, env *loopEnv) string // formula in the given environment
	alive    bool
	contract bool // from the contract file (failure is an obligation, not a silent drop)
	text     string
}

// loopEnv maps the loop header's phis to values (header symbols, entry-edge values or back-edge values)
type loopEnv struct {
	phi   map[*ssa.Phi]*Val
	st    *State
	entry map[*ssa.Phi]*Val // values on (first) entry edge, for "relative to entry" candidates
	hdrSt *State
}

type fnCtx struct {
	eng    *Engine
	em     *Emit
	f      *ssa.Function
	vals   map[ssa.Value]*Val
	st     *State
	entry  *State // heap at function entry (for old())
	reach  map[*ssa.BasicBlock]string
	hout   map[*ssa.BasicBlock]*State
	back   map[[2]int]bool
	loops  map[*ssa.BasicBlock]*loopInfo
	order  []*ssa.BasicBlock
	obls   []*Obl
	occ    map[string]int
	mute   bool
	depth  int
	curB   *ssa.BasicBlock
	params []*Val
	rets   []retInfo
	ct     *Contract
	// candidate activation: names of Houdini candidates currently assumed
	dead         map[string]bool
	defers       []*ssa.Defer
	hasRecov     bool
	inDefer      bool // translating a deferred call on a normal return: recover() yields nil
	notes        []string
	panics       []string // reach conditions of explicit panics (inline mode)
	ghost        map[string]string
	freeVars     map[*ssa.FreeVar]*Val
	inlineOf     *fnCtx
	events       []pbEvent
	gcfg         *ghostCfg
	windows      []window
	curPos       token.Pos
	reads        []readEvent
	modelVars    []modelVar
	firstIter    []string
	noCands      bool
	resetRecv    string
	lastAdded    ssa.Value
	lastAddedVal *Val
	callOrd      map[string]int
	assertHit    map[int]bool
	callSites    []*callSite
	retLabels    []string
}

// callSite is one static call of an in-module function (recorded in the root context, also for calls made from
// code inlined into it).
type callSite struct {
	callee *ssa.Function
	reach  string
	args   []*Val
	st     *State
}

type retInfo struct {
	reach string
	vals  []*Val
	st    *State
	pos   token.Pos
	block *ssa.BasicBlock
}

func (c *fnCtx) note(s string) { c.notes = append(c.notes, s) }

func (c *fnCtx) fnName() string { return c.eng.fnKey(c.f) }

// ---------------------------------------------------------------------------------------------

// haltClasses: obligations whose violation stops the execution (run-time panics, violated callee preconditions).
// Everything translated after such a check is only reached when the check passed ("assert, then assume"): the
// reach predicate of the block is strengthened with the condition, so that facts about later instructions of the
// same block (type invariants of loaded values, callee postconditions ...) cannot make an earlier check vacuous.
var haltClasses = map[string]bool{"div": true, "nil": true, "idx": true, "make": true, "mapnil": true, "panic": true, "slice": true, "typeassert": true, "pre": true}

func (c *fnCtx) assumePassed(class, guard, cond string) {
	if !haltClasses[class] || cond == "true" || c.curB == nil {
		return
	}
	c.reach[c.curB] = c.em.define("ok", "Bool", "(and "+guard+" "+cond+")")
}

func (c *fnCtx) addObl(class string, pos token.Pos, cond string, text string) *Obl {
	guard := c.reach[c.curB]
	defer c.assumePassed(class, guard, cond)
	if c.mute {
		return nil
	}
	if text == "" {
		text = c.eng.srcText(pos)
	}
	o := &Obl{Class: class, Fn: c.fnName(), Pos: c.eng.prog.Fset.Position(pos), Text: text, Guard: guard, Cond: cond}
	key := class + ":" + text
	n := c.occ[key]
	c.occ[key] = n + 1
	o.Name = fmt.Sprintf("%s#%s:%s/%d", o.Fn, class, shortText(text), n)
	c.obls = append(c.obls, o)
	return o
}

func (c *fnCtx) constVal(k *ssa.Const) *Val {
	t := k.Type()
	switch kindOf(t) {
	case KInt:
		if k.Value == nil {
			return iv("0")
		}
		if k.Value.Kind() == constant.Float {
			// untyped float constant converted: take integer part
			f, _ := constant.Float64Val(k.Value)
			return iv(neg(fmt.Sprintf("%d", int64(f))))
		}
		s := constant.ToInt(k.Value).ExactString()
		return iv(neg(s))
	case KBool:
		if k.Value != nil && constant.BoolVal(k.Value) {
			return bv("true")
		}
		return bv("false")
	case KStr:
		s := ""
		if k.Value != nil {
			s = constant.StringVal(k.Value)
		}
		return &Val{K: KStr, T: []string{fmt.Sprint(c.eng.strID(s)), fmt.Sprint(len(s))}}
	}
	if k.Value == nil {
		return c.zeroVal(t)
	}
	return c.freshVal(t, "k")
}

func (c *fnCtx) val(v ssa.Value) *Val {
	if x, ok := c.vals[v]; ok {
		return x
	}
	switch v := v.(type) {
	case *ssa.Const:
		return c.constVal(v)
	case *ssa.Global:
		name := "g_" + sanitize(v.Pkg.Pkg.Name()+"_"+v.Name())
		if !c.em.declared[name] {
			c.em.declared[name] = true
			c.em.decl(name, "Int")
			c.em.assert(fmt.Sprintf("(and (> %s 0) (<= %s %s) (= (owner %s) %s))", name, name, c.em.wm0, name, name))
		}
		x := &Val{K: KPtr, T: []string{name}}
		c.vals[v] = x
		return x
	case *ssa.Function:
		return &Val{K: KOpaque, T: []string{fmt.Sprint(c.eng.strID("fn:" + v.String()))}}
	case *ssa.Builtin:
		return &Val{K: KOpaque, T: []string{"1"}}
	case *ssa.FreeVar:
		if c.freeVars != nil {
			if x, ok := c.freeVars[v]; ok {
				return x
			}
		}
		x := c.freshVal(v.Type(), "fv")
		if x.K == KPtr {
			c.em.assert("(not (= " + x.T[0] + " 0))")
		}
		c.vals[v] = x
		return x
	}
	// value used before its definition (only possible through an ignored back edge): fresh
	x := c.freshVal(v.Type(), "undef")
	c.vals[v] = x
	return x
}

func constInt(v ssa.Value) (int64, bool) {
	if k, ok := v.(*ssa.Const); ok && k.Value != nil && k.Value.Kind() == constant.Int {
		if i, ok := constant.Int64Val(constant.ToInt(k.Value)); ok {
			return i, true
		}
	}
	return 0, false
}
func constU64(v ssa.Value) (uint64, bool) {
	if k, ok := v.(*ssa.Const); ok && k.Value != nil && k.Value.Kind() == constant.Int {
		if u, ok := constant.Uint64Val(constant.ToInt(k.Value)); ok {
			return u, true
		}
		if i, ok := constant.Int64Val(constant.ToInt(k.Value)); ok {
			return uint64(i), true
		}
	}
	return 0, false
}

// andConst: x & m for non-negative x, as arithmetic over runs of set bits.
func andConst(x string, m uint64) string {
	var parts []string
	i := 0
	for i < 64 {
		if m>>uint(i)&1 == 1 {
			j := i
			for j < 64 && m>>uint(j)&1 == 1 {
				j++
			}
			e := x
			if i > 0 {
				e = "(div " + x + " " + pow2(int64(i)) + ")"
			}
			if j < 64 {
				e = "(mod " + e + " " + pow2(int64(j-i)) + ")"
			}
			if i > 0 {
				e = "(* " + e + " " + pow2(int64(i)) + ")"
			}
			parts = append(parts, e)
			i = j
		} else {
			i++
		}
	}
	if len(parts) == 0 {
		return "0"
	}
	if len(parts) == 1 {
		return parts[0]
	}
	return "(+ " + strings.Join(parts, " ") + ")"
}

func goQuo(a, b string) string {
	return fmt.Sprintf("(ite (>= %s 0) (ite (> %s 0) (div %s %s) (- (div %s (- %s)))) (ite (> %s 0) (- (div (- %s) %s)) (div (- %s) (- %s))))", a, b, a, b, a, b, b, a, b, a, b)
}

func (c *fnCtx) bitop(op string, rt types.Type, a, b string, uns bool) *Val {
	// uninterpreted bit operation with sound range axioms
	bits := 64
	if bb, ok := rt.Underlying().(*types.Basic); ok {
		bits = bitsOf(bb)
	}
	fn := fmt.Sprintf("bit%s%d", op, bits)
	if !c.em.declared[fn] {
		c.em.declared[fn] = true
		fmt.Fprintf(&c.em.out, "(declare-fun %s (Int Int) Int)\n", fn)
	}
	r := c.em.define("bit", "Int", fmt.Sprintf("(%s %s %s)", fn, a, b))
	v := &Val{K: KInt, T: []string{r}}
	if lo, hi, ok := intRange(rt.Underlying().(*types.Basic)); ok {
		c.em.assert(fmt.Sprintf("(and (<= %s %s) (<= %s %s))", neg(lo), r, r, hi))
	}
	if uns {
		switch op {
		case "and":
			c.em.assert(fmt.Sprintf("(and (<= %s %s) (<= %s %s))", r, a, r, b))
		case "or":
			c.em.assert(fmt.Sprintf("(and (>= %s %s) (>= %s %s) (<= %s (+ %s %s)))", r, a, r, b, r, a, b))
			c.em.assert(fmt.Sprintf("(=> (= %s 0) (= %s %s))", a, r, b))
			c.em.assert(fmt.Sprintf("(=> (= %s 0) (= %s %s))", b, r, a))
		case "xor":
			c.em.assert(fmt.Sprintf("(<= %s (+ %s %s))", r, a, b))
			c.em.assert(fmt.Sprintf("(=> (= %s 0) (= %s %s))", a, r, b))
			c.em.assert(fmt.Sprintf("(=> (= %s 0) (= %s %s))", b, r, a))
			c.em.assert(fmt.Sprintf("(= (= %s 0) (= %s %s))", r, a, b))
		case "andnot":
			c.em.assert(fmt.Sprintf("(<= %s %s)", r, a))
		}
	}
	return v
}

// orDisjoint recognises x|y where the operands provably occupy disjoint bit ranges syntactically
// (a<<k | b with b < 2^k): returns sum encoding when both sides have known bounds.
func (c *fnCtx) orAsSum(in *ssa.BinOp) (string, bool) {
	// pattern: (X << k) | Y   or  Y | (X << k), with Y of a type narrower than k bits (after convert)
	try := func(sh, lo ssa.Value) (string, bool) {
		b, ok := sh.(*ssa.BinOp)
		if !ok || b.Op != token.SHL {
			return "", false
		}
		k, ok := constInt(b.Y)
		if !ok || k <= 0 || k >= 64 {
			return "", false
		}
		w := valueWidth(lo)
		if w < 0 || int64(w) > k {
			return "", false
		}
		return "(+ " + c.val(sh).T[0] + " " + c.val(lo).T[0] + ")", true
	}
	if s, ok := try(in.X, in.Y); ok {
		return s, true
	}
	return try(in.Y, in.X)
}

// valueWidth: an upper bound on the number of significant bits of an unsigned value, or -1.
func valueWidth(v ssa.Value) int {
	switch x := v.(type) {
	case *ssa.Convert:
		if b, ok := x.X.Type().Underlying().(*types.Basic); ok && isUnsigned(b) {
			w := valueWidth(x.X)
			if w >= 0 {
				return w
			}
			return bitsOf(b)
		}
		return -1
	case *ssa.Const:
		if u, ok := constU64(x); ok {
			n := 0
			for u > 0 {
				n++
				u >>= 1
			}
			return n
		}
	case *ssa.BinOp:
		switch x.Op {
		case token.SHL:
			if k, ok := constInt(x.Y); ok {
				if w := valueWidth(x.X); w >= 0 {
					return w + int(k)
				}
			}
		case token.SHR:
			if k, ok := constInt(x.Y); ok {
				if w := valueWidth(x.X); w >= 0 {
					if w-int(k) < 0 {
						return 0
					}
					return w - int(k)
				}
			}
		case token.AND:
			if m, ok := constU64(x.Y); ok {
				n := 0
				for m > 0 {
					n++
					m >>= 1
				}
				return n
			}
		case token.OR:
			a, b := valueWidth(x.X), valueWidth(x.Y)
			if a >= 0 && b >= 0 {
				if a > b {
					return a
				}
				return b
			}
		}
	}
	if b, ok := v.Type().Underlying().(*types.Basic); ok && isUnsigned(b) {
		return bitsOf(b)
	}
	return -1
}

func (c *fnCtx) binop(in *ssa.BinOp) *Val {
	x, y := c.val(in.X), c.val(in.Y)
	t := in.X.Type()
	rt := in.Type()
	I := func(e string) *Val { return iv(c.em.define("t", "Int", e)) }
	B := func(e string) *Val { return bv(c.em.define("b", "Bool", e)) }
	switch x.K {
	case KBool:
		switch in.Op {
		case token.EQL:
			return B("(= " + x.T[0] + " " + y.T[0] + ")")
		case token.NEQ:
			return B("(not (= " + x.T[0] + " " + y.T[0] + "))")
		case token.AND, token.LAND:
			return B("(and " + x.T[0] + " " + y.T[0] + ")")
		case token.OR, token.LOR:
			return B("(or " + x.T[0] + " " + y.T[0] + ")")
		}
	case KInt:
		a, bb := x.T[0], y.T[0]
		bt, _ := t.Underlying().(*types.Basic)
		uns := bt != nil && isUnsigned(bt)
		switch in.Op {
		case token.ADD:
			return I(wrapInt(rt, "(+ "+a+" "+bb+")"))
		case token.SUB:
			return I(wrapInt(rt, "(- "+a+" "+bb+")"))
		case token.MUL:
			return I(wrapInt(rt, "(* "+a+" "+bb+")"))
		case token.QUO, token.REM:
			if _, isConst := constInt(in.Y); !isConst || bb == "0" {
				c.addObl("div", in.Pos(), "(not (= "+bb+" 0))", "")
			}
			if uns {
				if in.Op == token.QUO {
					return I("(div " + a + " " + bb + ")")
				}
				return I("(mod " + a + " " + bb + ")")
			}
			q := c.em.define("q", "Int", goQuo(a, bb))
			if in.Op == token.QUO {
				return I(wrapInt(rt, q))
			}
			return I(fmt.Sprintf("(- %s (* %s %s))", a, bb, q))
		case token.AND:
			if m, ok := constU64(in.Y); ok {
				if !uns {
					a = "(mod " + a + " " + modulus(bt) + ")"
					return I(wrapInt(rt, andConst(a, m&maskOf(bt))))
				}
				return I(andConst(a, m))
			}
			if m, ok := constU64(in.X); ok {
				if !uns {
					bb = "(mod " + bb + " " + modulus(bt) + ")"
					return I(wrapInt(rt, andConst(bb, m&maskOf(bt))))
				}
				return I(andConst(bb, m))
			}
			return c.bitop("and", rt, a, bb, uns)
		case token.OR:
			if uns {
				if s, ok := c.orAsSum(in); ok {
					return I(s)
				}
				if m, ok := constU64(in.Y); ok && m == 0 {
					return x
				}
			}
			return c.bitop("or", rt, a, bb, uns)
		case token.XOR:
			if uns {
				if m, ok := constU64(in.Y); ok && m == maskOf(bt) {
					return I("(- " + fmt.Sprint(m) + " " + a + ")")
				}
			}
			return c.bitop("xor", rt, a, bb, uns)
		case token.AND_NOT:
			if m, ok := constU64(in.Y); ok && uns {
				return I(andConst(a, ^m&maskOf(bt)))
			}
			return c.bitop("andnot", rt, a, bb, uns)
		case token.SHL:
			if s, ok := constInt(in.Y); ok && s >= 0 {
				if s >= 64 {
					return iv("0")
				}
				return I(wrapInt(rt, "(* "+a+" "+pow2(s)+")"))
			}
			// variable shift: 2^s as uninterpreted with case split for small s
			return I(wrapInt(rt, "(* "+a+" "+c.pow2Term(bb)+")"))
		case token.SHR:
			if s, ok := constInt(in.Y); ok && s >= 0 {
				if s >= 64 {
					if uns {
						return iv("0")
					}
					return I("(ite (< " + a + " 0) (- 1) 0)")
				}
				return I("(div " + a + " " + pow2(s) + ")")
			}
			return I("(div " + a + " " + c.pow2Term(bb) + ")")
		case token.EQL:
			return B("(= " + a + " " + bb + ")")
		case token.NEQ:
			return B("(not (= " + a + " " + bb + "))")
		case token.LSS:
			return B("(< " + a + " " + bb + ")")
		case token.LEQ:
			return B("(<= " + a + " " + bb + ")")
		case token.GTR:
			return B("(> " + a + " " + bb + ")")
		case token.GEQ:
			return B("(>= " + a + " " + bb + ")")
		}
	case KStr:
		switch in.Op {
		case token.ADD:
			r := c.freshVal(rt, "cat")
			c.em.assert(fmt.Sprintf("(= %s (+ %s %s))", r.T[1], x.T[1], y.T[1]))
			return r
		case token.EQL, token.NEQ:
			// equal ids => equal strings; equal strings => equal lengths
			r := c.em.fresh("seq")
			c.em.decl(r, "Bool")
			c.em.assert(fmt.Sprintf("(and (=> (= %s %s) %s) (=> %s (= %s %s)))", x.T[0], y.T[0], r, r, x.T[1], y.T[1]))
			c.em.assert(fmt.Sprintf("(=> (and (= %s 0) (= %s 0)) %s)", x.T[1], y.T[1], r))
			if in.Op == token.EQL {
				return bv(r)
			}
			return bv("(not " + r + ")")
		}
		return c.freshVal(rt, "scmp")
	case KPtr, KOpaque:
		switch in.Op {
		case token.EQL:
			return B("(= " + x.T[0] + " " + y.T[0] + ")")
		case token.NEQ:
			return B("(not (= " + x.T[0] + " " + y.T[0] + "))")
		}
		return c.freshVal(rt, "ocmp")
	case KIface:
		if y.K == KIface {
			e := fmt.Sprintf("(and (= %s %s) (= %s %s))", x.T[0], y.T[0], x.T[1], y.T[1])
			if isNilConst(in.Y) {
				e = "(= " + x.T[0] + " 0)"
			} else if isNilConst(in.X) {
				e = "(= " + y.T[0] + " 0)"
			}
			switch in.Op {
			case token.EQL:
				return B(e)
			case token.NEQ:
				return B("(not " + e + ")")
			}
		}
	case KSlice:
		// only comparison with nil is legal
		e := "(= " + x.T[0] + " 0)"
		if isNilConst(in.X) {
			e = "(= " + y.T[0] + " 0)"
		}
		switch in.Op {
		case token.EQL:
			return B(e)
		case token.NEQ:
			return B("(not " + e + ")")
		}
	case KStruct, KArr:
		if in.Op == token.EQL || in.Op == token.NEQ {
			e := c.valEq(t, x, y)
			if in.Op == token.NEQ {
				e = "(not " + e + ")"
			}
			return B(e)
		}
	}
	return c.freshVal(rt, "bin")
}

// valEq: Go == on comparable values
func (c *fnCtx) valEq(t types.Type, x, y *Val) string {
	switch kindOf(t) {
	case KStruct:
		st := t.Underlying().(*types.Struct)
		var parts []string
		for i := 0; i < st.NumFields(); i++ {
			if i < len(x.F) && i < len(y.F) {
				parts = append(parts, c.valEq(st.Field(i).Type(), x.F[i], y.F[i]))
			}
		}
		if len(parts) == 0 {
			return "true"
		}
		return "(and " + strings.Join(parts, " ") + ")"
	case KArr:
		at := t.Underlying().(*types.Array)
		if x.K == KArr && y.K == KArr && at.Len() <= 64 {
			var parts []string
			for i := int64(0); i < at.Len(); i++ {
				parts = append(parts, fmt.Sprintf("(= (select %s %d) (select %s %d))", x.T[0], i, y.T[0], i))
			}
			if len(parts) == 0 {
				return "true"
			}
			return "(and " + strings.Join(parts, " ") + ")"
		}
		n := c.em.fresh("aeq")
		c.em.decl(n, "Bool")
		return n
	case KStr:
		r := c.em.fresh("seq")
		c.em.decl(r, "Bool")
		c.em.assert(fmt.Sprintf("(and (=> (= %s %s) %s) (=> %s (= %s %s)))", x.T[0], y.T[0], r, r, x.T[1], y.T[1]))
		return r
	}
	return eqVals(x, y)
}

func maskOf(b *types.Basic) uint64 {
	if b == nil {
		return ^uint64(0)
	}
	n := bitsOf(b)
	if n >= 64 {
		return ^uint64(0)
	}
	return (uint64(1) << uint(n)) - 1
}

func isNilConst(v ssa.Value) bool {
	k, ok := v.(*ssa.Const)
	return ok && k.Value == nil
}

// pow2Term: 2^s for a symbolic shift count, as an uninterpreted function with ground facts for 0..64.
func (c *fnCtx) pow2Term(s string) string {
	if !c.em.declared["pow2fn"] {
		c.em.declared["pow2fn"] = true
		fmt.Fprintf(&c.em.out, "(declare-fun pow2 (Int) Int)\n")
		var parts []string
		for i := int64(0); i <= 64; i++ {
			parts = append(parts, fmt.Sprintf("(= (pow2 %d) %s)", i, pow2(i)))
		}
		c.em.assert("(and " + strings.Join(parts, " ") + ")")
		c.em.assert("(forall ((k Int)) (! (and (>= (pow2 k) 1) (=> (> k 64) (>= (pow2 k) 18446744073709551616))) :pattern ((pow2 k))))")
	}
	return "(pow2 " + s + ")"
}

// ---- instruction execution --------------------------------------------------------------------

func knownNonNil(v ssa.Value) bool {
	switch x := v.(type) {
	case *ssa.Alloc, *ssa.FieldAddr, *ssa.IndexAddr, *ssa.Global, *ssa.MakeSlice, *ssa.MakeMap, *ssa.MakeClosure, *ssa.Function:
		return true
	case *ssa.Parameter:
		return true // assumption: pointer parameters and receivers are non-nil on entry (listed)
	case *ssa.FreeVar:
		return true
	case *ssa.Phi:
		for _, e := range x.Edges {
			if e == v {
				continue
			}
			if _, isPhi := e.(*ssa.Phi); isPhi {
				return false
			}
			if !knownNonNil(e) {
				return false
			}
		}
		return true
	}
	return false
}

func (c *fnCtx) nilCheck(p ssa.Value, pos token.Pos) {
	if knownNonNil(p) {
		return
	}
	c.addObl("nil", pos, "(not (= "+c.val(p).T[0]+" 0))", "")
}

func (c *fnCtx) set(v ssa.Value, x *Val) { c.vals[v] = x }

func (c *fnCtx) exec(in ssa.Instruction) {
	switch in := in.(type) {
	case *ssa.DebugRef:
	case *ssa.Alloc:
		el := in.Type().Underlying().(*types.Pointer).Elem()
		r := c.newRef("ref")
		c.zeroInit(el, r, 0)
		c.set(in, &Val{K: KPtr, T: []string{r}})
	case *ssa.FieldAddr:
		c.nilCheck(in.X, in.Pos())
		st := in.X.Type().Underlying().(*types.Pointer).Elem()
		f := st.Underlying().(*types.Struct).Field(in.Field)
		c.set(in, c.fieldPtr(st, f, c.val(in.X).T[0]))
	case *ssa.IndexAddr:
		idx := c.val(in.Index).T[0]
		switch xt := in.X.Type().Underlying().(type) {
		case *types.Slice:
			s := c.val(in.X)
			c.addObl("idx", in.Pos(), fmt.Sprintf("(and (<= 0 %s) (< %s %s))", idx, idx, s.T[2]), "")
			c.set(in, c.elemPtr(xt.Elem(), s.T[0], c.em.define("ix", "Int", "(+ "+s.T[1]+" "+idx+")")))
		case *types.Pointer:
			c.nilCheck(in.X, in.Pos())
			at := xt.Elem().Underlying().(*types.Array)
			if _, isConst := constInt(in.Index); !isConst {
				c.addObl("idx", in.Pos(), fmt.Sprintf("(and (<= 0 %s) (< %s %d))", idx, idx, at.Len()), "")
			}
			c.set(in, c.elemPtr(at.Elem(), c.val(in.X).T[0], idx))
		default:
			panic(unsupported{"indexaddr"})
		}
	case *ssa.UnOp:
		c.unop(in)
	case *ssa.Store:
		c.nilCheck(in.Addr, in.Pos())
		c.frameCheck(in.Addr, in.Pos())
		c.store(c.val(in.Addr), in.Val.Type(), c.val(in.Val))
	case *ssa.BinOp:
		c.set(in, c.binop(in))
	case *ssa.Phi:
	case *ssa.Convert:
		c.convert(in)
	case *ssa.ChangeType:
		c.set(in, c.val(in.X))
	case *ssa.ChangeInterface:
		c.set(in, c.val(in.X))
	case *ssa.MakeInterface:
		x := c.val(in.X)
		id := c.eng.typeID(in.X.Type())
		var payload string
		switch x.K {
		case KPtr, KInt, KOpaque:
			payload = x.T[0]
		default:
			// boxed composite value: fresh identity
			payload = c.em.fresh("box")
			c.em.decl(payload, "Int")
			c.eng.boxes.Store(payload, x)
			c.boxed(payload, x)
		}
		c.set(in, &Val{K: KIface, T: []string{fmt.Sprint(id), payload}})
	case *ssa.Slice:
		c.slice(in)
	case *ssa.MakeSlice:
		l := c.val(in.Len).T[0]
		cp := c.val(in.Cap).T[0]
		c.addObl("make", in.Pos(), fmt.Sprintf("(and (<= 0 %s) (<= %s %s) (<= %s %s))", l, l, cp, cp, maxLen), "")
		a := c.newRef("mk")
		et := in.Type().Underlying().(*types.Slice).Elem()
		c.em.assert(fmt.Sprintf("(=> %s (= (atype %s) %d))", c.reach[c.curB], a, c.eng.elemTypeID(et)))
		c.zeroSlice(et, a)
		c.set(in, &Val{K: KSlice, T: []string{a, "0", l, cp}})
		c.allocCheck(in, l)
	case *ssa.Call:
		var rt types.Type
		if tp, ok := in.Type().(*types.Tuple); !ok || tp.Len() > 0 {
			rt = in.Type()
		}
		r := c.call(in, in.Common(), rt)
		if r != nil {
			c.set(in, r)
		}
	case *ssa.Extract:
		t := c.val(in.Tuple)
		if in.Index < len(t.F) && t.F[in.Index] != nil {
			c.set(in, t.F[in.Index])
		} else {
			c.set(in, c.freshVal(in.Type(), "ex"))
		}
	case *ssa.Field:
		s := c.val(in.X)
		if in.Field < len(s.F) && s.F[in.Field] != nil {
			c.set(in, s.F[in.Field])
		} else {
			c.set(in, c.freshVal(in.Type(), "fl"))
		}
	case *ssa.Index:
		idx := c.val(in.Index).T[0]
		x := c.val(in.X)
		switch xt := in.X.Type().Underlying().(type) {
		case *types.Array:
			if _, isConst := constInt(in.Index); !isConst {
				c.addObl("idx", in.Pos(), fmt.Sprintf("(and (<= 0 %s) (< %s %d))", idx, idx, xt.Len()), "")
			}
			if x.K == KArr {
				srt, _ := elemSort(xt.Elem())
				r := c.em.define("ai", srt, "(select "+x.T[0]+" "+idx+")")
				v := &Val{K: kindOf(xt.Elem()), T: []string{r}}
				c.typeInv(xt.Elem(), v)
				c.set(in, v)
				return
			}
		case *types.Basic:
			c.addObl("idx", in.Pos(), fmt.Sprintf("(and (<= 0 %s) (< %s %s))", idx, idx, x.T[1]), "")
		}
		c.set(in, c.freshVal(in.Type(), "ix"))
	case *ssa.Lookup:
		if b, ok := in.X.Type().Underlying().(*types.Basic); ok && b.Info()&types.IsString != 0 {
			s := c.val(in.X)
			idx := c.val(in.Index).T[0]
			c.addObl("idx", in.Pos(), fmt.Sprintf("(and (<= 0 %s) (< %s %s))", idx, idx, s.T[1]), "")
		}
		r := c.freshVal(in.Type(), "lk")
		if in.CommaOk && len(r.F) == 2 {
			// a missing key yields the zero value
			zero := c.zeroVal(in.Type().(*types.Tuple).At(0).Type())
			c.em.assert("(=> (not " + r.F[1].T[0] + ") " + eqVals(r.F[0], zero) + ")")
		}
		c.set(in, r)
	case *ssa.TypeAssert:
		c.typeAssert(in)
	case *ssa.MapUpdate:
		m := c.val(in.Map)
		if !knownNonNil(in.Map) {
			c.addObl("mapnil", in.Pos(), "(not (= "+m.T[0]+" 0))", "")
		}
	case *ssa.MakeMap:
		r := c.newRef("map")
		c.set(in, &Val{K: KOpaque, T: []string{r}})
	case *ssa.MakeClosure:
		c.set(in, &Val{K: KOpaque, T: []string{c.newRef("clo")}})
		c.eng.closures.Store(in, true)
	case *ssa.Range:
		c.set(in, c.freshVal(in.Type(), "rng"))
	case *ssa.Next:
		c.set(in, c.freshVal(in.Type(), "nxt"))
	case *ssa.Panic:
		if c.mute {
			c.panics = append(c.panics, c.reach[c.curB])
		}
		if !c.panicAllowed(in) {
			c.addObl("panic", in.Pos(), "false", "")
		}
	case *ssa.If, *ssa.Jump:
	case *ssa.Return:
		var vs []*Val
		for _, r := range in.Results {
			vs = append(vs, c.val(r))
		}
		c.rets = append(c.rets, retInfo{reach: c.reach[c.curB], vals: vs, st: c.st.clone(), pos: in.Pos(), block: c.curB})
	case *ssa.RunDefers:
		c.runDefers()
	case *ssa.Defer:
		c.defers = append(c.defers, in)
		for _, a := range in.Call.Args {
			c.val(a)
		}
	case *ssa.Go:
		// spawning a goroutine: sequential reasoning continues, everything the goroutine may touch is havocked
		c.note("goroutine spawned: later heap reads are unconstrained (no interleaving is explored)")
		var gargs []*Val
		for _, a := range in.Call.Args {
			gargs = append(gargs, c.val(a))
		}
		if sc := in.Call.StaticCallee(); sc != nil {
			c.anchoredAsserts(in, sc.Name(), &in.Call, gargs)
		}
		c.havocAll()
	case *ssa.MakeChan:
		c.set(in, &Val{K: KOpaque, T: []string{c.newRef("chan")}})
	case *ssa.Send, *ssa.Select:
		panic(unsupported{fmt.Sprintf("concurrency (%T)", in)})
	case *ssa.SliceToArrayPointer:
		panic(unsupported{"slice to array pointer"})
	case *ssa.MultiConvert:
		c.set(in, c.freshVal(in.Type(), "mc"))
	default:
		panic(unsupported{fmt.Sprintf("%T", in)})
	}
}

func (c *fnCtx) boxed(id string, v *Val) {}

func (c *fnCtx) unop(in *ssa.UnOp) {
	switch in.Op {
	case token.MUL:
		c.nilCheck(in.X, in.Pos())
		el := in.X.Type().Underlying().(*types.Pointer).Elem()
		v := c.load(c.val(in.X), el)
		if g, ok := in.X.(*ssa.Global); ok && (v.K == KIface || v.K == KPtr) && c.eng.initOnlyNonNil(g) {
			// package-level error values initialised once (errors.New / fmt.Errorf in init) are never nil
			c.em.assert("(not (= " + v.T[0] + " 0))")
		}
		c.set(in, v)
	case token.NOT:
		c.set(in, bv(c.em.define("b", "Bool", "(not "+c.val(in.X).T[0]+")")))
	case token.SUB:
		if kindOf(in.Type()) != KInt {
			c.set(in, c.freshVal(in.Type(), "negf"))
			return
		}
		c.set(in, iv(c.em.define("t", "Int", wrapInt(in.Type(), "(- "+c.val(in.X).T[0]+")"))))
	case token.XOR:
		c.set(in, iv(c.em.define("t", "Int", wrapInt(in.Type(), "(- (- "+c.val(in.X).T[0]+") 1)"))))
	case token.ARROW:
		panic(unsupported{"channel receive"})
	default:
		panic(unsupported{"unop " + in.Op.String()})
	}
}

func (c *fnCtx) convert(in *ssa.Convert) {
	x := c.val(in.X)
	fk, tk := kindOf(in.X.Type()), kindOf(in.Type())
	switch {
	case fk == KInt && tk == KInt:
		c.set(in, iv(c.em.define("cv", "Int", wrapInt(in.Type(), x.T[0]))))
	case fk == KSlice && tk == KStr:
		r := c.freshVal(in.Type(), "s")
		c.em.assert("(= " + r.T[1] + " " + x.T[2] + ")")
		c.set(in, r)
	case fk == KStr && tk == KSlice:
		a := c.newRef("sb")
		c.havocElemType(in.Type().Underlying().(*types.Slice).Elem())
		c.set(in, &Val{K: KSlice, T: []string{a, "0", x.T[1], x.T[1]}})
	case fk == KInt && tk == KStr:
		r := c.freshVal(in.Type(), "s")
		c.em.assert("(<= " + r.T[1] + " 4)")
		c.set(in, r)
	case fk == KOpaque && tk == KInt:
		// float -> int
		c.set(in, c.freshVal(in.Type(), "f2i"))
	case fk == tk && (fk == KPtr || fk == KOpaque):
		c.set(in, x)
	default:
		c.set(in, c.freshVal(in.Type(), "cv"))
	}
}

func (c *fnCtx) slice(in *ssa.Slice) {
	var lo, hi, mx string
	if in.Low != nil {
		lo = c.val(in.Low).T[0]
	} else {
		lo = "0"
	}
	switch xt := in.X.Type().Underlying().(type) {
	case *types.Slice:
		s := c.val(in.X)
		if in.High != nil {
			hi = c.val(in.High).T[0]
		} else {
			hi = s.T[2]
		}
		if in.Max != nil {
			mx = c.val(in.Max).T[0]
			c.addObl("slice", in.Pos(), fmt.Sprintf("(and (<= 0 %s) (<= %s %s) (<= %s %s) (<= %s %s))", lo, lo, hi, hi, mx, mx, s.T[3]), "")
		} else {
			mx = s.T[3]
			if !(in.Low == nil && in.High == nil) {
				c.addObl("slice", in.Pos(), fmt.Sprintf("(and (<= 0 %s) (<= %s %s) (<= %s %s))", lo, lo, hi, hi, s.T[3]), "")
			}
		}
		c.capCheck(in, s, hi)
		if lo == "0" {
			c.set(in, &Val{K: KSlice, T: []string{s.T[0], s.T[1], c.em.define("sl", "Int", hi), c.em.define("sc", "Int", mx)}})
		} else {
			c.set(in, &Val{K: KSlice, T: []string{s.T[0], c.em.define("so", "Int", "(+ "+s.T[1]+" "+lo+")"), c.em.define("sl", "Int", "(- "+hi+" "+lo+")"), c.em.define("sc", "Int", "(- "+mx+" "+lo+")")}})
		}
	case *types.Basic: // string
		s := c.val(in.X)
		if in.High != nil {
			hi = c.val(in.High).T[0]
		} else {
			hi = s.T[1]
		}
		c.addObl("slice", in.Pos(), fmt.Sprintf("(and (<= 0 %s) (<= %s %s) (<= %s %s))", lo, lo, hi, hi, s.T[1]), "")
		r := c.freshVal(in.Type(), "ss")
		c.em.assert("(= " + r.T[1] + " (- " + hi + " " + lo + "))")
		c.set(in, r)
	case *types.Pointer:
		c.nilCheck(in.X, in.Pos())
		at := xt.Elem().Underlying().(*types.Array)
		n := fmt.Sprint(at.Len())
		if in.High != nil {
			hi = c.val(in.High).T[0]
		} else {
			hi = n
		}
		mx = n
		if in.Max != nil {
			mx = c.val(in.Max).T[0]
		}
		_, c1 := constIntOrNil(in.Low)
		_, c2 := constIntOrNil(in.High)
		if !(c1 && c2 && in.Max == nil) {
			c.addObl("slice", in.Pos(), fmt.Sprintf("(and (<= 0 %s) (<= %s %s) (<= %s %s) (<= %s %s))", lo, lo, hi, hi, mx, mx, n), "")
		}
		c.set(in, &Val{K: KSlice, T: []string{c.val(in.X).T[0], lo, c.em.define("sl", "Int", "(- "+hi+" "+lo+")"), c.em.define("sc", "Int", "(- "+mx+" "+lo+")")}})
	default:
		panic(unsupported{"slice of " + in.X.Type().String()})
	}
}

func constIntOrNil(v ssa.Value) (int64, bool) {
	if v == nil {
		return 0, true
	}
	return constInt(v)
}

func (c *fnCtx) typeAssert(in *ssa.TypeAssert) {
	x := c.val(in.X)
	if x.K != KIface {
		if !in.CommaOk {
			c.addObl("typeassert", in.Pos(), "false", "")
		}
		c.set(in, c.freshVal(in.Type(), "ta"))
		return
	}
	var ok string
	var res *Val
	at := in.AssertedType
	if _, isIface := at.Underlying().(*types.Interface); isIface {
		if xi, isI := in.X.Type().Underlying().(*types.Interface); isI && types.Implements(in.X.Type(), at.Underlying().(*types.Interface)) {
			_ = xi
			ok = "(not (= " + x.T[0] + " 0))"
		} else {
			// dynamic type must implement the interface: exact over in-module concrete types we know
			ids := c.eng.implementerIDs(at.Underlying().(*types.Interface))
			o := c.em.fresh("impl")
			c.em.decl(o, "Bool")
			c.em.assert("(=> " + o + " (not (= " + x.T[0] + " 0)))")
			for _, id := range ids {
				c.em.assert(fmt.Sprintf("(=> (= %s %d) %s)", x.T[0], id, o))
			}
			ok = o
		}
		res = &Val{K: KIface, T: []string{x.T[0], x.T[1]}}
	} else {
		id := c.eng.typeID(at)
		ok = fmt.Sprintf("(= %s %d)", x.T[0], id)
		switch kindOf(at) {
		case KPtr:
			res = &Val{K: KPtr, T: []string{x.T[1]}}
		case KInt:
			res = c.freshVal(at, "tav")
			c.em.assert("(=> " + ok + " (= " + res.T[0] + " " + x.T[1] + "))")
		default:
			res = c.freshVal(at, "tav")
		}
	}
	okT := c.em.define("taok", "Bool", ok)
	if in.CommaOk {
		c.set(in, &Val{K: KTuple, F: []*Val{res, bv(okT)}})
		return
	}
	c.addObl("typeassert", in.Pos(), okT, "")
	c.set(in, res)
}

// runDefers: effects of deferred calls at function exit (statically known callees only).
func (c *fnCtx) runDefers() {
	for i := len(c.defers) - 1; i >= 0; i-- {
		d := c.defers[i]
		cc := d.Common()
		run := func() {
			// on a normal (non-panicking) return a deferred module function that is small enough runs inlined, with
			// recover() returning nil; everything else is abstracted by its write set
			callee := cc.StaticCallee()
			var closure *ssa.MakeClosure
			if mc, ok := cc.Value.(*ssa.MakeClosure); ok {
				closure = mc
			}
			if callee != nil && !cc.IsInvoke() && c.eng.isModule(callee) && callee.Blocks != nil && c.canInline(callee) && !c.mute {
				var args []*Val
				for _, a := range cc.Args {
					args = append(args, c.val(a))
				}
				r := c.root()
				saved := r.inDefer
				r.inDefer = true
				c.inline(d, callee, closure, args, nil)
				r.inDefer = saved
				return
			}
			ms := newModSet()
			c.eng.callMods(ms, cc, c.f)
			c.havocSet(ms)
		}
		inLoop := false
		for _, li := range c.loops {
			if li.blocks[d.Block()] {
				inLoop = true
			}
		}
		cond, ok := c.reach[d.Block()]
		if inLoop || !ok || c.curB == nil || d.Block() == c.curB || d.Block().Dominates(c.curB) {
			run()
			continue
		}
		// a defer statement under a condition runs only on the executions that passed through it
		before := c.st.clone()
		run()
		c.st = c.mergeStates([]*State{c.st, before}, []string{cond, "(not " + cond + ")"})
	}
}

// ---- whole function ---------------------------------------------------------------------------

func (c *fnCtx) edgeCond(p, b *ssa.BasicBlock) string {
	r := c.reach[p]
	if iff, ok := p.Instrs[len(p.Instrs)-1].(*ssa.If); ok {
		cond := c.val(iff.Cond).T[0]
		if p.Succs[0] == b && p.Succs[1] == b {
			return r
		}
		if p.Succs[0] == b {
			return "(and " + r + " " + cond + ")"
		}
		return "(and " + r + " (not " + cond + "))"
	}
	return r
}

func (c *fnCtx) analyzeLoops() {
	f := c.f
	c.back = map[[2]int]bool{}
	c.loops = map[*ssa.BasicBlock]*loopInfo{}
	for _, b := range f.Blocks {
		for _, s := range b.Succs {
			if s.Dominates(b) {
				c.back[[2]int{b.Index, s.Index}] = true
				li := c.loops[s]
				if li == nil {
					li = &loopInfo{header: s, blocks: map[*ssa.BasicBlock]bool{s: true}}
					c.loops[s] = li
				}
				li.backs = append(li.backs, b)
				// natural loop body: all blocks that reach b without passing through s
				stack := []*ssa.BasicBlock{b}
				for len(stack) > 0 {
					x := stack[len(stack)-1]
					stack = stack[:len(stack)-1]
					if li.blocks[x] {
						continue
					}
					li.blocks[x] = true
					for _, p := range x.Preds {
						stack = append(stack, p)
					}
				}
			}
		}
	}
	// ordinals in source order of header position
	var hs []*ssa.BasicBlock
	for h := range c.loops {
		hs = append(hs, h)
	}
	sort.Slice(hs, func(i, j int) bool {
		pi, pj := c.loopPos(hs[i]), c.loopPos(hs[j])
		if pi != pj {
			return pi < pj
		}
		return hs[i].Index < hs[j].Index
	})
	for i, h := range hs {
		c.loops[h].ord = i
		c.loops[h].mods = c.eng.blocksMods(f, c.loops[h].blocks)
	}
	// RPO ignoring back edges
	seen := map[*ssa.BasicBlock]bool{}
	var order []*ssa.BasicBlock
	var dfs func(b *ssa.BasicBlock)
	dfs = func(b *ssa.BasicBlock) {
		seen[b] = true
		for i := len(b.Succs) - 1; i >= 0; i-- {
			s := b.Succs[i]
			if !seen[s] && !c.back[[2]int{b.Index, s.Index}] {
				dfs(s)
			}
		}
		order = append(order, b)
	}
	dfs(f.Blocks[0])
	for i, j := 0, len(order)-1; i < j; i, j = i+1, j-1 {
		order[i], order[j] = order[j], order[i]
	}
	c.order = order
}

func (c *fnCtx) loopPos(h *ssa.BasicBlock) token.Pos {
	best := token.NoPos
	for _, in := range h.Instrs {
		if p := in.Pos(); p.IsValid() && (best == token.NoPos || p < best) {
			best = p
		}
	}
	if best == token.NoPos {
		for b := range c.loops[h].blocks {
			for _, in := range b.Instrs {
				if p := in.Pos(); p.IsValid() && (best == token.NoPos || p < best) {
					best = p
				}
			}
		}
	}
	return best
}

// run translates the function body. Parameters must already be bound in c.vals.
func (c *fnCtx) run() {
	c.analyzeLoops()
	// an inlined callee starts under the reach condition of its call site (set by inline); everything assumed
	// inside it - type invariants of loaded values in particular - must stay guarded by that condition
	entryReach := ""
	if c.reach != nil {
		entryReach = c.reach[c.f.Blocks[0]]
	}
	c.reach = map[*ssa.BasicBlock]string{}
	if entryReach != "" {
		c.reach[c.f.Blocks[0]] = entryReach
	}
	c.hout = map[*ssa.BasicBlock]*State{}
	for _, b := range c.order {
		c.curB = b
		isHdr := c.loops[b] != nil
		// reachability and incoming states
		var preds []*ssa.BasicBlock
		var conds []string
		var states []*State
		if b.Index != 0 {
			for _, p := range b.Preds {
				if c.back[[2]int{p.Index, b.Index}] {
					continue
				}
				if _, ok := c.hout[p]; !ok {
					continue
				}
				preds = append(preds, p)
				conds = append(conds, c.em.define("edge", "Bool", c.edgeCond(p, b)))
				states = append(states, c.hout[p])
			}
			if len(conds) == 0 {
				c.reach[b] = "false"
			} else if len(conds) == 1 {
				c.reach[b] = conds[0]
			} else {
				c.reach[b] = c.em.define("reach", "Bool", "(or "+strings.Join(conds, " ")+")")
			}
			c.st = c.mergeStates(states, conds)
		} else {
			if c.reach[b] == "" {
				c.reach[b] = "true"
			}
		}
		if b.Index == 0 && c.reach[b] == "" {
			c.reach[b] = "true"
		}
		if isHdr {
			c.enterLoop(b, preds, conds)
		} else {
			// ordinary phis
			for _, in := range b.Instrs {
				phi, ok := in.(*ssa.Phi)
				if !ok {
					break
				}
				c.set(phi, c.mergePhi(phi, b, preds, conds))
			}
		}
		for _, in := range b.Instrs {
			if p := in.Pos(); p.IsValid() {
				c.curPos = p
			}
			c.exec(in)
		}
		c.hout[b] = c.st.clone()
		// back edges leaving this block: preservation obligations
		for _, s := range b.Succs {
			if c.back[[2]int{b.Index, s.Index}] {
				c.closeLoop(c.loops[s], b)
			}
		}
	}
	for _, b := range c.order {
		if li := c.loops[b]; li != nil {
			c.decObligation(li)
		}
	}
}

func (c *fnCtx) mergePhi(phi *ssa.Phi, b *ssa.BasicBlock, preds []*ssa.BasicBlock, conds []string) *Val {
	// collect incoming values
	var ins []*Val
	for _, p := range preds {
		for i, q := range b.Preds {
			if q == p {
				ins = append(ins, c.val(phi.Edges[i]))
				break
			}
		}
	}
	if len(ins) == 0 {
		return c.freshVal(phi.Type(), "phi")
	}
	allSame := true
	for _, v := range ins[1:] {
		if v != ins[0] {
			allSame = false
		}
	}
	if allSame {
		return ins[0]
	}
	v := c.freshVal(phi.Type(), "phi_"+sanitize(phi.Comment))
	for i, iv := range ins {
		if e := eqVals(v, iv); e != "true" {
			c.em.assert("(=> " + conds[i] + " " + e + ")")
		}
	}
	// pointer cell info survives only if identical on all edges
	if v.K == KPtr {
		var p0 *Ptr
		same := true
		for i, iv := range ins {
			if i == 0 {
				p0 = iv.P
			} else if (iv.P == nil) != (p0 == nil) || (iv.P != nil && *iv.P != *p0) {
				same = false
			}
		}
		if same {
			v.P = p0
		} else {
			el := phi.Type().Underlying().(*types.Pointer).Elem()
			if k := kindOf(el); k != KStruct && k != KArr {
				v.P = &Ptr{Op: true}
			}
		}
	}
	return v
}

// retLabel names the ri-th return of the function by the source text of the return statement and its occurrence
// among returns with the same text (not by its ordinal: adding or removing an unrelated return must not rename
// the obligations of the others).
func (c *fnCtx) retLabel(ri int) string {
	if c.retLabels == nil {
		c.retLabels = make([]string, len(c.rets))
		occ := map[string]int{}
		for i, r := range c.rets {
			t := "end"
			if r.pos.IsValid() {
				t = shortText(c.eng.srcText(r.pos))
			}
			c.retLabels[i] = fmt.Sprintf("ret:%s/%d", t, occ[t])
			occ[t]++
		}
	}
	if ri < len(c.retLabels) {
		return c.retLabels[ri]
	}
	return fmt.Sprintf("ret:?/%d", ri)
}
