package main

import (
	"fmt"
	"os"
	"go/token"
	"go/types"
	"sort"
	"strings"

	"golang.org/x/tools/go/ssa"
)

// headerPhis lists the phis of a loop header.
func headerPhis(b *ssa.BasicBlock) []*ssa.Phi {
	var r []*ssa.Phi
	for _, in := range b.Instrs {
		if p, ok := in.(*ssa.Phi); ok {
			r = append(r, p)
		} else {
			break
		}
	}
	return r
}

func (c *fnCtx) definedOutside(li *loopInfo, v ssa.Value) bool {
	switch x := v.(type) {
	case *ssa.Const, *ssa.Parameter, *ssa.Global, *ssa.FreeVar, *ssa.Function:
		return true
	case ssa.Instruction:
		return !li.blocks[x.Block()]
	}
	return false
}

// enterLoop cuts the loop at its header: havoc, assume invariants, emit entry obligations.
func (c *fnCtx) enterLoop(b *ssa.BasicBlock, preds []*ssa.BasicBlock, conds []string) {
	li := c.loops[b]
	li.entrySt = c.st.clone()
	li.backInfo = nil
	phis := headerPhis(b)
	entryVals := map[*ssa.Phi]*Val{}
	li.entryVals = entryVals
	for _, phi := range phis {
		entryVals[phi] = c.mergePhi(phi, b, preds, conds)
	}
	// havoc the loop's write set and the loop-carried values
	if os.Getenv("DEBUGLOOP") != "" {
		fmt.Fprintf(os.Stderr, "LOOP %s #%d top=%v keys=%d\n", c.fnName(), li.ord, li.mods.Top, len(li.mods.Keys))
		for b := range li.blocks {
			for _, in := range b.Instrs {
				m := newModSet()
				c.eng.instrMods(m, in, c.f, nil)
				for k := range m.Keys {
					if strings.Contains(k, "BaseLayer") {
						fmt.Fprintf(os.Stderr, "   %s writes %s at %v\n", in.String(), k, c.eng.prog.Fset.Position(in.Pos()))
					}
				}
			}
		}
	}
	c.havocSet(li.mods)
	li.phiH = map[*ssa.Phi]*Val{}
	for _, phi := range phis {
		v := c.freshVal(phi.Type(), "lp_"+sanitize(phi.Comment))
		if v.K == KPtr {
			el := phi.Type().Underlying().(*types.Pointer).Elem()
			if k := kindOf(el); k != KStruct && k != KArr {
				if ev := entryVals[phi]; ev != nil && ev.P != nil && !ev.P.Op {
					v.P = &Ptr{Op: true}
				} else if ev != nil && ev.P != nil {
					v.P = &Ptr{Op: true}
				}
			}
		}
		li.phiH[phi] = v
		c.set(phi, v)
	}
	// "first iteration" predicate: header state equals the entry state (used to look for realisable models)
	if !c.mute {
		var eqs []string
		for _, phi := range phis {
			if e := eqVals(li.phiH[phi], entryVals[phi]); e != "true" {
				eqs = append(eqs, e)
			}
		}
		if li.mods.Top {
			// everything was havocked (new heap epoch): tie the keys that were in use before the loop to their
			// entry values, so that a first-iteration model is a run from the function entry
			for _, k := range sortedStateKeys(li.entrySt) {
				old := li.entrySt.m[k]
				if k == "$wm" || strings.HasPrefix(k, "ghost:") {
					continue
				}
				if t, ok := c.st.m[k]; ok {
					if t != old {
						eqs = append(eqs, "(= "+t+" "+old+")")
					}
					continue
				}
				name := fmt.Sprintf("H%d_%s", c.st.epoch, smtKey(k))
				if !c.em.declared[name] {
					c.em.declared[name] = true
					c.em.decl(name, c.em.keySort(k))
				}
				eqs = append(eqs, "(= "+name+" "+old+")")
			}
		}
		if !li.mods.Top {
			for _, k := range sortedStateKeys(c.st) {
				t := c.st.m[k]
				if k == "$wm" {
					continue
				}
				old, ok := li.entrySt.m[k]
				if !ok {
					// key first touched by the havoc: its value on entry is the epoch default
					old = fmt.Sprintf("H%d_%s", li.entrySt.epoch, smtKey(k))
					if !c.em.declared[old] {
						c.em.declared[old] = true
						c.em.decl(old, c.em.keySort(k))
					}
				}
				if old != t {
					eqs = append(eqs, "(= "+t+" "+old+")")
				}
			}
		}
		name := c.em.fresh("firstiter")
		body := "true"
		if len(eqs) > 0 {
			sort.Strings(eqs)
			body = "(and " + strings.Join(eqs, " ") + ")"
		}
		fmt.Fprintf(&c.em.out, "(define-fun %s () Bool %s)\n", name, body)
		c.firstIter = append(c.firstIter, name)
	}
	li.hdrState = c.st.clone()
	if li.cands == nil {
		if c.noCands {
			li.cands = []*invCand{}
		} else {
			c.buildCandidates(li, phis)
		}
	}
	hdrEnv := &loopEnv{phi: li.phiH, st: c.st, entry: entryVals, hdrSt: c.st}
	entEnv := &loopEnv{phi: entryVals, st: li.entrySt, entry: entryVals, hdrSt: c.st}
	// The invariants are assumed by strengthening the path condition of everything after the cut, never as
	// global facts: an inconsistent candidate set must not make its own entry checks vacuous.
	preReach := c.reach[b]
	var assumed []string
	defer func() {
		if len(assumed) > 0 {
			c.reach[b] = c.em.define("inloop", "Bool", "(and "+preReach+" "+strings.Join(assumed, " ")+")")
		}
	}()
	for _, cd := range li.cands {
		if c.dead[cd.name] {
			continue
		}
		saved := c.st
		f := cd.eval(c, hdrEnv)
		c.st = saved
		if f == "" {
			c.dead[cd.name] = true
			continue
		}
		assumed = append(assumed, f)
		// entry obligation
		saved = c.st
		c.st = li.entrySt.clone()
		fe := cd.eval(c, entEnv)
		c.st = saved
		cls := "hinv"
		if cd.contract {
			cls = "inv-entry"
		}
		c.addLoopObl(cls, cd, li, preReach, fe, "entry")
	}
}

func (c *fnCtx) addLoopObl(cls string, cd *invCand, li *loopInfo, guard, cond, where string) {
	if c.mute {
		return
	}
	o := &Obl{Class: cls, Fn: c.fnName(), Pos: c.eng.prog.Fset.Position(c.loopPos(li.header)), Text: cd.text, Guard: guard, Cond: cond}
	o.Name = fmt.Sprintf("%s#%s:loop%d:%s/%s", o.Fn, cls, li.ord, shortText(cd.name), where)
	o.candName = cd.name
	c.obls = append(c.obls, o)
}

// closeLoop emits preservation obligations for the back edge from block 'from'.
func (c *fnCtx) closeLoop(li *loopInfo, from *ssa.BasicBlock) {
	if li == nil {
		return
	}
	h := li.header
	guard := c.em.define("backedge", "Bool", c.edgeCond(from, h))
	backVals := map[*ssa.Phi]*Val{}
	for _, phi := range headerPhis(h) {
		for i, q := range h.Preds {
			if q == from {
				backVals[phi] = c.val(phi.Edges[i])
			}
		}
	}
	env := &loopEnv{phi: backVals, st: c.hout[from], hdrSt: nil}
	// entry-relative candidates need the entry values: recover from header env
	for _, cd := range li.cands {
		if c.dead[cd.name] {
			continue
		}
		saved := c.st
		c.st = c.hout[from].clone()
		env.entry = c.entryValsOf(li)
		f := cd.eval(c, env)
		c.st = saved
		cls := "hinv"
		if cd.contract {
			cls = "inv-pres"
		}
		c.addLoopObl(cls, cd, li, guard, f, fmt.Sprintf("back%d", from.Index))
	}
	li.backInfo = append(li.backInfo, backEdge{from: from, guard: guard, vals: backVals})
	c.initBackEdge(li, from, guard)
}

func (c *fnCtx) entryValsOf(li *loopInfo) map[*ssa.Phi]*Val {
	if li.entryVals == nil {
		return map[*ssa.Phi]*Val{}
	}
	return li.entryVals
}

// ---- Houdini candidates -----------------------------------------------------------------------

func (c *fnCtx) buildCandidates(li *loopInfo, phis []*ssa.Phi) {
	li.cands = []*invCand{}
	add := func(name, text string, ev func(c *fnCtx, env *loopEnv) string) {
		li.cands = append(li.cands, &invCand{name: fmt.Sprintf("L%d:%s", li.ord, name), text: text, eval: ev, alive: true})
	}
	// contract invariants first
	if c.ct != nil {
		if ls := c.ct.Loops[li.ord]; ls != nil {
			for i, inv := range ls.Invariants {
				inv := inv
				cd := &invCand{name: fmt.Sprintf("L%d:inv%d", li.ord, i), text: inv.Src, contract: true, alive: true}
				cd.eval = func(c *fnCtx, env *loopEnv) string {
					return c.evalLoopExpr(inv, li, env)
				}
				li.cands = append(li.cands, cd)
			}
		}
	}
	// loop-invariant values compared against phis inside the loop
	type cmpPair struct {
		phi   *ssa.Phi
		other ssa.Value
	}
	var pairs []cmpPair
	var outerSlices []ssa.Value
	seenSl := map[ssa.Value]bool{}
	noteSlice := func(v ssa.Value) {
		if v == nil || seenSl[v] {
			return
		}
		if _, ok := v.Type().Underlying().(*types.Slice); ok && c.definedOutside(li, v) {
			seenSl[v] = true
			outerSlices = append(outerSlices, v)
		}
	}
	isPhi := func(v ssa.Value) *ssa.Phi {
		if p, ok := v.(*ssa.Phi); ok && p.Block() == li.header {
			return p
		}
		return nil
	}
	for b := range li.blocks {
		for _, in := range b.Instrs {
			switch x := in.(type) {
			case *ssa.BinOp:
				switch x.Op {
				case token.LSS, token.LEQ, token.GTR, token.GEQ, token.NEQ, token.EQL:
					if p := isPhi(x.X); p != nil && c.definedOutside(li, x.Y) && isIntType(x.Y.Type()) {
						pairs = append(pairs, cmpPair{p, x.Y})
					}
					if p := isPhi(x.Y); p != nil && c.definedOutside(li, x.X) && isIntType(x.X.Type()) {
						pairs = append(pairs, cmpPair{p, x.X})
					}
				}
			case *ssa.IndexAddr:
				noteSlice(x.X)
			case *ssa.Slice:
				noteSlice(x.X)
			case *ssa.Call:
				if bi, ok := x.Call.Value.(*ssa.Builtin); ok && bi.Name() == "len" {
					noteSlice(x.Call.Args[0])
				}
			}
		}
	}
	for _, phi := range phis {
		phi := phi
		nm := sanitize(phi.Comment) + "_" + strings.TrimPrefix(phi.Name(), "t")
		switch kindOf(phi.Type()) {
		case KInt:
			bt := phi.Type().Underlying().(*types.Basic)
			if !isUnsigned(bt) {
				add(nm+">=0", phi.Comment+" >= 0", func(c *fnCtx, env *loopEnv) string {
					v := env.phi[phi]
					if v == nil {
						return "true"
					}
					return "(>= " + v.T[0] + " 0)"
				})
			}
			add(nm+">=entry", phi.Comment+" >= entry", func(c *fnCtx, env *loopEnv) string {
				v, e := env.phi[phi], env.entry[phi]
				if v == nil || e == nil {
					return "true"
				}
				return "(>= " + v.T[0] + " " + e.T[0] + ")"
			})
			add(nm+"<=entry", phi.Comment+" <= entry", func(c *fnCtx, env *loopEnv) string {
				v, e := env.phi[phi], env.entry[phi]
				if v == nil || e == nil {
					return "true"
				}
				return "(<= " + v.T[0] + " " + e.T[0] + ")"
			})
			for _, s := range outerSlices {
				s := s
				add(nm+"<=len:"+s.Name(), phi.Comment+" <= len("+s.Name()+")", func(c *fnCtx, env *loopEnv) string {
					v, e := env.phi[phi], env.entry[phi]
					if v == nil {
						return "true"
					}
					sv := c.val(s)
					if e == nil {
						return "(<= " + v.T[0] + " " + sv.T[2] + ")"
					}
					return "(or (<= " + v.T[0] + " " + sv.T[2] + ") (= " + v.T[0] + " " + e.T[0] + "))"
				})
			}
		case KSlice:
			mk := func(sfx, text string, f func(v, e *Val) string) {
				add(nm+sfx, phi.Comment+text, func(c *fnCtx, env *loopEnv) string {
					v, e := env.phi[phi], env.entry[phi]
					if v == nil || e == nil {
						return "true"
					}
					return f(v, e)
				})
			}
			mk(".arr", ".arr == entry.arr", func(v, e *Val) string { return "(= " + v.T[0] + " " + e.T[0] + ")" })
			mk(".end", ".off+len == entry.off+len", func(v, e *Val) string {
				return fmt.Sprintf("(= (+ %s %s) (+ %s %s))", v.T[1], v.T[2], e.T[1], e.T[2])
			})
			mk(".cend", ".off+cap == entry.off+cap", func(v, e *Val) string {
				return fmt.Sprintf("(= (+ %s %s) (+ %s %s))", v.T[1], v.T[3], e.T[1], e.T[3])
			})
			mk(".off>=", ".off >= entry.off", func(v, e *Val) string { return "(>= " + v.T[1] + " " + e.T[1] + ")" })
			mk(".len<=", ".len <= entry.len", func(v, e *Val) string { return "(<= " + v.T[2] + " " + e.T[2] + ")" })
			mk(".fresh", " is nil, fresh or the entry array", func(v, e *Val) string {
				return "(or (= " + v.T[0] + " 0) (> (owner " + v.T[0] + ") " + c.em.wm0 + ") (= " + v.T[0] + " " + e.T[0] + "))"
			})
			mk(".nonnil", " non-nil as entry", func(v, e *Val) string {
				return "(=> (not (= " + e.T[0] + " 0)) (not (= " + v.T[0] + " 0)))"
			})
		case KPtr:
			add(nm+"!=nil", phi.Comment+" != nil", func(c *fnCtx, env *loopEnv) string {
				v := env.phi[phi]
				if v == nil {
					return "true"
				}
				return "(not (= " + v.T[0] + " 0))"
			})
		}
	}
	seenPair := map[string]bool{}
	for _, pr := range pairs {
		pr := pr
		nm := sanitize(pr.phi.Comment) + "_" + strings.TrimPrefix(pr.phi.Name(), "t")
		k := nm + "|" + pr.other.Name()
		if seenPair[k] {
			continue
		}
		seenPair[k] = true
		add(nm+"<=:"+pr.other.Name(), pr.phi.Comment+" <= bound", func(c *fnCtx, env *loopEnv) string {
			v, e := env.phi[pr.phi], env.entry[pr.phi]
			if v == nil {
				return "true"
			}
			o := c.val(pr.other).T[0]
			if e == nil {
				return "(<= " + v.T[0] + " " + o + ")"
			}
			return "(or (<= " + v.T[0] + " " + o + ") (= " + v.T[0] + " " + e.T[0] + "))"
		})
		add(nm+">=:"+pr.other.Name(), pr.phi.Comment+" >= bound", func(c *fnCtx, env *loopEnv) string {
			v, e := env.phi[pr.phi], env.entry[pr.phi]
			if v == nil {
				return "true"
			}
			o := c.val(pr.other).T[0]
			if e == nil {
				return "(>= " + v.T[0] + " " + o + ")"
			}
			return "(or (>= " + v.T[0] + " " + o + ") (= " + v.T[0] + " " + e.T[0] + "))"
		})
	}
}

// ---- termination ------------------------------------------------------------------------------

func (c *fnCtx) decObligation(li *loopInfo) {
	if c.mute || !c.eng.wantClass("dec") || len(li.backInfo) == 0 {
		return
	}
	// loops driven by a map/string range iterator terminate by construction
	for b := range li.blocks {
		for _, in := range b.Instrs {
			if _, ok := in.(*ssa.Next); ok {
				return
			}
		}
	}
	// alts[k] = formulas (one per back edge) for measure k
	var alts [][]string
	var keys []string
	for bi, be := range li.backInfo {
		from, guard, backVals := be.from, be.guard, be.vals
		k := 0
		addAlt := func(hdr, back string) {
			f := fmt.Sprintf("(=> %s (and (>= %s 0) (< %s %s)))", guard, hdr, back, hdr)
			if bi == 0 {
				alts = append(alts, []string{f})
				keys = append(keys, hdr)
			} else if k < len(alts) && keys[k] == hdr {
				alts[k] = append(alts[k], f)
			}
			k++
		}
		// explicit decreases clause
		if c.ct != nil {
			if ls := c.ct.Loops[li.ord]; ls != nil && ls.Decreases != nil {
				saved := c.st
				hdrEnv := &loopEnv{phi: li.phiH, st: li.hdrState, entry: c.entryValsOf(li)}
				c.st = li.hdrState.clone()
				mh := c.evalLoopTerm(ls.Decreases, li, hdrEnv)
				c.st = c.hout[from].clone()
				mb := c.evalLoopTerm(ls.Decreases, li, &loopEnv{phi: backVals, st: c.hout[from], entry: c.entryValsOf(li)})
				c.st = saved
				addAlt(mh, mb)
			}
		}
		for _, phi := range headerPhis(li.header) {
			h, b := li.phiH[phi], backVals[phi]
			if h == nil || b == nil {
				continue
			}
			switch kindOf(phi.Type()) {
			case KSlice:
				addAlt(h.T[2], b.T[2])
			case KInt:
				addAlt(h.T[0], b.T[0])
				// len(s) - x for slices defined outside the loop and used in it
				for _, sv := range c.outerSlicesOf(li) {
					l := c.val(sv).T[2]
					addAlt("(- "+l+" "+h.T[0]+")", "(- "+l+" "+b.T[0]+")")
				}
				// bound - x (and x - bound) for every loop-invariant int that takes part in a comparison in the loop
				for _, other := range c.outerBoundsOf(li) {
					o := c.val(other).T[0]
					addAlt("(- "+o+" "+h.T[0]+")", "(- "+o+" "+b.T[0]+")")
					addAlt("(- "+h.T[0]+" "+o+")", "(- "+b.T[0]+" "+o+")")
				}
			}
		}
	}
	o := &Obl{Class: "dec", Fn: c.fnName(), Pos: c.eng.prog.Fset.Position(c.loopPos(li.header)), Text: "loop terminates", Guard: "true"}
	o.Name = fmt.Sprintf("%s#dec:loop%d", o.Fn, li.ord)
	seen := map[string]bool{}
	for _, a := range alts {
		if len(a) != len(li.backInfo) {
			continue
		}
		key := strings.Join(a, "&")
		if !seen[key] {
			seen[key] = true
			o.Any = append(o.Any, a)
		}
	}
	if len(o.Any) == 0 {
		o.Cond = "false"
	}
	c.obls = append(c.obls, o)
}

// outerSlicesOf: slice values defined outside the loop that the loop body indexes, slices or measures.
func (c *fnCtx) outerSlicesOf(li *loopInfo) []ssa.Value {
	if li.outerSl != nil {
		return li.outerSl
	}
	seen := map[ssa.Value]bool{}
	var res []ssa.Value
	note := func(v ssa.Value) {
		if v == nil || seen[v] {
			return
		}
		if _, ok := v.Type().Underlying().(*types.Slice); ok && c.definedOutside(li, v) {
			seen[v] = true
			res = append(res, v)
		}
	}
	var blocks []*ssa.BasicBlock
	for b := range li.blocks {
		blocks = append(blocks, b)
	}
	sort.Slice(blocks, func(i, j int) bool { return blocks[i].Index < blocks[j].Index })
	for _, b := range blocks {
		for _, in := range b.Instrs {
			switch x := in.(type) {
			case *ssa.IndexAddr:
				note(x.X)
			case *ssa.Slice:
				note(x.X)
			case *ssa.Call:
				if bi, ok := x.Call.Value.(*ssa.Builtin); ok && bi.Name() == "len" {
					note(x.Call.Args[0])
				}
			}
		}
	}
	if res == nil {
		res = []ssa.Value{}
	}
	li.outerSl = res
	return res
}

// outerBoundsOf: loop-invariant integer values compared against something inside the loop.
func (c *fnCtx) outerBoundsOf(li *loopInfo) []ssa.Value {
	if li.outerB != nil {
		return li.outerB
	}
	seen := map[ssa.Value]bool{}
	res := []ssa.Value{}
	var blocks []*ssa.BasicBlock
	for b := range li.blocks {
		blocks = append(blocks, b)
	}
	sort.Slice(blocks, func(i, j int) bool { return blocks[i].Index < blocks[j].Index })
	for _, blk := range blocks {
		for _, in := range blk.Instrs {
			bo, ok := in.(*ssa.BinOp)
			if !ok {
				continue
			}
			switch bo.Op {
			case token.LSS, token.LEQ, token.GTR, token.GEQ, token.NEQ, token.EQL:
			default:
				continue
			}
			for _, v := range []ssa.Value{bo.X, bo.Y} {
				if _, isC := v.(*ssa.Const); isC || seen[v] || !isIntType(v.Type()) || !c.definedOutside(li, v) {
					continue
				}
				seen[v] = true
				res = append(res, v)
			}
		}
	}
	li.outerB = res
	return res
}

func sortedStateKeys(st *State) []string {
	ks := make([]string, 0, len(st.m))
	for k := range st.m {
		ks = append(ks, k)
	}
	sort.Strings(ks)
	return ks
}
