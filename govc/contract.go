package main

import (
	"fmt"
	"go/ast"
	"go/token"
	"go/types"
	"regexp"
	"sort"
	"strings"

	"golang.org/x/tools/go/packages"
	"golang.org/x/tools/go/ssa"
)

type LoopSpec struct {
	Invariants []*Expr
	Decreases  *Expr
}

type Contract struct {
	Key        string // pkg.Recv.Func
	Pkg        *types.Package
	Header     string
	Requires   []*Expr
	Ensures    []*Expr
	Modifies   []string // nil: derived; []{"nothing"}; key globs
	Loops      map[int]*LoopSpec
	PanicsIff  *Expr
	Decreases  *Expr // recursion measure: non-negative on entry, strictly smaller at every direct recursive call
	Inline     bool
	Trusted    bool // contract is assumed: body is not verified (listed)
	Uses       []*Expr
	Props      []string
	File       string
	Line       int
	modset     *ModSet
	Asserts    []*AssertAt
	Keeps      []string          // C05: receiver fields that DecodeFromBytes deliberately leaves to the caller
	ghosts     []string
	HasRecv    bool              // extern contracts: ParamNames[0] names the receiver
	ParamNames []string          // extern contracts: parameter names from the header
	Devirt     map[string]string // parameter name -> concrete type name (interface parameter known to hold *T)
}

// AssertAt is an assertion anchored at the n-th call (in generation order) of a named callee / builtin.
type AssertAt struct {
	Callee string
	Ord    int
	Expr   *Expr
	Assume bool
}

type SpecParam struct {
	Name string
	Kind string // int bool slice ref
	TyS  string
}

type SpecFn struct {
	Name      string
	Pkg       *types.Package
	Params    []SpecParam
	Result    string
	Body      *Expr
	Rec       bool
	unfolding int
}

// WritersClause: a field that only the listed functions may store to (ownership of a representation field).
type WritersClause struct {
	Pkg         *types.Package
	Props       []string
	Type, Field string
	Allowed     []string
	Src, File   string
}

type Lemma struct {
	Name      string
	Pkg       *types.Package
	Params    []SpecParam
	Requires  []*Expr
	Ensures   []*Expr
	Induction string
	Step      int
	Uses      []*Expr
	Props     []string
	File      string
}

var clauseKW = regexp.MustCompile(`^(requires|ensures|modifies|loop|panics_iff|inline|trusted|use|induction|props|func|spec|pred|lemma|extern|devirt|at|ifacecontract|keeps|decreases|writers)\b`)

// parseContracts reads every zz_verif_contracts*.go file of the loaded packages.
func (e *Engine) parseContracts(pkgs []*packages.Package) error {
	for _, p := range pkgs {
		for _, f := range p.Syntax {
			name := e.prog.Fset.Position(f.Pos()).Filename
			if !strings.Contains(name, "zz_verif_contracts") {
				continue
			}
			var lines []struct {
				s    string
				line int
			}
			for _, cg := range f.Comments {
				for _, cm := range cg.List {
					if strings.HasPrefix(cm.Text, "//@") {
						lines = append(lines, struct {
							s    string
							line int
						}{strings.TrimPrefix(cm.Text, "//@"), e.prog.Fset.Position(cm.Pos()).Line})
					}
				}
			}
			if err := e.parseContractLines(p.Types, name, lines); err != nil {
				return err
			}
			e.contractFiles = append(e.contractFiles, name)
		}
	}
	return nil
}

func (e *Engine) parseContractLines(pkg *types.Package, file string, lines []struct {
	s    string
	line int
}) error {
	// join continuation lines
	type clause struct {
		s    string
		line int
	}
	var cls []clause
	for _, l := range lines {
		s := strings.TrimSpace(l.s)
		if i := strings.Index(s, " //"); i >= 0 {
			s = strings.TrimSpace(s[:i])
		}
		if s == "" {
			continue
		}
		if clauseKW.MatchString(s) || len(cls) == 0 {
			cls = append(cls, clause{s, l.line})
		} else {
			cls[len(cls)-1].s += " " + s
		}
	}
	var cur *Contract
	var curLemma *Lemma
	mk := func(s string, line int) (*Expr, error) {
		x, err := parseExpr(s)
		if err != nil {
			return nil, fmt.Errorf("%s:%d: %v", file, line, err)
		}
		return x, nil
	}
	for _, cl := range cls {
		s := cl.s
		kw := clauseKW.FindString(s)
		rest := strings.TrimSpace(s[len(kw):])
		switch kw {
		case "func":
			key, err := contractKey(pkg, rest)
			if err != nil {
				return fmt.Errorf("%s:%d: %v", file, cl.line, err)
			}
			curLemma = nil
			if prev, dup := e.contracts[key]; dup {
				// a second block for the same function (another contract file of the package) adds clauses to the first
				cur = prev
				break
			}
			cur = &Contract{Key: key, Pkg: pkg, Header: rest, Loops: map[int]*LoopSpec{}, File: file, Line: cl.line}
			e.contracts[key] = cur
		case "extern":
			// extern pkg.Func(a T, b U) result-type : assumed contract of a function outside the module
			// method form: extern (w *bufio.Writer) Write(p []byte) (int, error)  -> key "(*bufio.Writer).Write"
			hdr := rest
			recvName, recvType := "", ""
			if strings.HasPrefix(hdr, "(") {
				k := strings.Index(hdr, ")")
				if k < 0 {
					return fmt.Errorf("%s:%d: bad extern header", file, cl.line)
				}
				rf := strings.Fields(hdr[1:k])
				if len(rf) != 2 {
					return fmt.Errorf("%s:%d: extern receiver must be (name Type)", file, cl.line)
				}
				recvName, recvType = rf[0], rf[1]
				hdr = strings.TrimSpace(hdr[k+1:])
			}
			i := strings.Index(hdr, "(")
			j := strings.Index(hdr, ")")
			if i < 0 || j < i {
				return fmt.Errorf("%s:%d: bad extern header", file, cl.line)
			}
			name := strings.TrimSpace(hdr[:i])
			if recvType != "" {
				name = "(" + recvType + ")." + name
			}
			cur = &Contract{Key: "extern:" + name, Pkg: pkg, Header: rest, Loops: map[int]*LoopSpec{}, File: file, Line: cl.line, Trusted: true}
			if recvName != "" {
				cur.ParamNames = append(cur.ParamNames, recvName)
				cur.HasRecv = true
			}
			for _, sp := range parseParams(hdr[i+1 : j]) {
				cur.ParamNames = append(cur.ParamNames, sp.Name)
			}
			curLemma = nil
			e.externCts[name] = cur
		case "ifacecontract":
			// ifacecontract Iface.Method(a T, b U) : contract of an interface method, used at invoke sites;
			// every in-module implementer is checked against its frame (class "subtype").
			i := strings.Index(rest, "(")
			j := strings.LastIndex(rest, ")")
			if i < 0 || j < i {
				return fmt.Errorf("%s:%d: bad ifacecontract header", file, cl.line)
			}
			name := strings.TrimSpace(rest[:i])
			qual := pkg.Name() + "." + name
			if strings.Count(name, ".") == 2 {
				qual = name // interface of another package, written pkg.Iface.Method (e.g. io.Writer.Write)
			}
			cur = &Contract{Key: "iface:" + qual, Pkg: pkg, Header: rest, Loops: map[int]*LoopSpec{}, File: file, Line: cl.line, Trusted: true}
			for _, sp := range parseParams(rest[i+1 : j]) {
				cur.ParamNames = append(cur.ParamNames, sp.Name)
			}
			curLemma = nil
			e.ifaceCts[qual] = cur
		case "devirt":
			if cur == nil {
				return fmt.Errorf("%s:%d: devirt outside func", file, cl.line)
			}
			f := strings.Fields(rest)
			if len(f) != 2 {
				return fmt.Errorf("%s:%d: devirt <param> <*Type>", file, cl.line)
			}
			if cur.Devirt == nil {
				cur.Devirt = map[string]string{}
			}
			cur.Devirt[f[0]] = f[1]
		case "writers":
			// writers C03 C01: T.field: fnKey fnKey ...   (only the listed functions of the module store to that field)
			colon := strings.Index(rest, ":")
			if colon < 0 {
				return fmt.Errorf("%s:%d: writers PROPS: Type.field: functions", file, cl.line)
			}
			w := &WritersClause{Pkg: pkg, Props: strings.Fields(rest[:colon]), Src: rest, File: file}
			rest2 := strings.TrimSpace(rest[colon+1:])
			colon2 := strings.Index(rest2, ":")
			if colon2 < 0 {
				return fmt.Errorf("%s:%d: writers PROPS: Type.field: functions", file, cl.line)
			}
			tf := strings.Split(strings.TrimSpace(rest2[:colon2]), ".")
			if len(tf) != 2 {
				return fmt.Errorf("%s:%d: writers: Type.field expected", file, cl.line)
			}
			w.Type, w.Field = tf[0], tf[1]
			for _, f := range strings.Fields(rest2[colon2+1:]) {
				w.Allowed = append(w.Allowed, pkg.Name()+"."+f)
			}
			e.writers = append(e.writers, w)
			cur, curLemma = nil, nil
		case "spec", "pred":
			sp, err := parseSpec(pkg, kw, rest)
			if err != nil {
				return fmt.Errorf("%s:%d: %v", file, cl.line, err)
			}
			e.specs[pkg.Path()+"."+sp.Name] = sp
			e.specsByName[sp.Name] = sp
			cur, curLemma = nil, nil
		case "lemma":
			i := strings.Index(rest, "(")
			j := strings.LastIndex(rest, ")")
			if i < 0 || j < i {
				return fmt.Errorf("%s:%d: bad lemma header", file, cl.line)
			}
			curLemma = &Lemma{Name: strings.TrimSpace(rest[:i]), Pkg: pkg, Params: parseParams(rest[i+1 : j]), File: file, Step: 1}
			e.lemmas = append(e.lemmas, curLemma)
			cur = nil
		case "requires", "ensures", "panics_iff", "use", "decreases":
			x, err := mk(rest, cl.line)
			if err != nil {
				return err
			}
			switch {
			case cur != nil && kw == "requires":
				cur.Requires = append(cur.Requires, x)
			case cur != nil && kw == "ensures":
				cur.Ensures = append(cur.Ensures, x)
			case cur != nil && kw == "panics_iff":
				cur.PanicsIff = x
			case cur != nil && kw == "decreases":
				cur.Decreases = x
			case cur != nil && kw == "use":
				cur.Uses = append(cur.Uses, x)
			case curLemma != nil && kw == "requires":
				curLemma.Requires = append(curLemma.Requires, x)
			case curLemma != nil && kw == "ensures":
				curLemma.Ensures = append(curLemma.Ensures, x)
			case curLemma != nil && kw == "use":
				curLemma.Uses = append(curLemma.Uses, x)
			default:
				return fmt.Errorf("%s:%d: clause outside func/lemma", file, cl.line)
			}
		case "modifies":
			if cur == nil {
				return fmt.Errorf("%s:%d: modifies outside func", file, cl.line)
			}
			cur.Modifies = append(cur.Modifies, strings.Fields(strings.ReplaceAll(rest, ",", " "))...)
			if len(cur.Modifies) == 0 {
				cur.Modifies = []string{"nothing"}
			}
		case "loop":
			if cur == nil {
				return fmt.Errorf("%s:%d: loop outside func", file, cl.line)
			}
			var n int
			var what string
			colon := strings.Index(rest, ":")
			if colon < 0 {
				return fmt.Errorf("%s:%d: loop N: invariant|decreases expr", file, cl.line)
			}
			fmt.Sscanf(strings.TrimSpace(rest[:colon]), "%d", &n)
			body := strings.TrimSpace(rest[colon+1:])
			sp := strings.IndexAny(body, " \t")
			if sp < 0 {
				return fmt.Errorf("%s:%d: bad loop clause", file, cl.line)
			}
			what, body = body[:sp], strings.TrimSpace(body[sp:])
			x, err := mk(body, cl.line)
			if err != nil {
				return err
			}
			ls := cur.Loops[n]
			if ls == nil {
				ls = &LoopSpec{}
				cur.Loops[n] = ls
			}
			switch what {
			case "invariant":
				ls.Invariants = append(ls.Invariants, x)
			case "decreases":
				ls.Decreases = x
			default:
				return fmt.Errorf("%s:%d: unknown loop clause %s", file, cl.line, what)
			}
		case "at":
			// at <callee> <n>: assert <expr>
			if cur == nil {
				return fmt.Errorf("%s:%d: at outside func", file, cl.line)
			}
			colon := strings.Index(rest, ":")
			if colon < 0 {
				return fmt.Errorf("%s:%d: at <callee> <n>: assert expr", file, cl.line)
			}
			hd := strings.Fields(rest[:colon])
			body := strings.TrimSpace(rest[colon+1:])
			if len(hd) != 2 || !(strings.HasPrefix(body, "assert ") || strings.HasPrefix(body, "assume ")) {
				return fmt.Errorf("%s:%d: at <callee> <n>: assert expr", file, cl.line)
			}
			var n int
			fmt.Sscanf(hd[1], "%d", &n)
			x, err := mk(strings.TrimSpace(body[7:]), cl.line)
			if err != nil {
				return err
			}
			cur.Asserts = append(cur.Asserts, &AssertAt{Callee: hd[0], Ord: n, Expr: x, Assume: strings.HasPrefix(body, "assume ")})
		case "keeps":
			if cur != nil {
				cur.Keeps = append(cur.Keeps, strings.Fields(strings.ReplaceAll(rest, ",", " "))...)
			}
		case "inline":
			if cur != nil {
				cur.Inline = true
			}
		case "trusted":
			if cur != nil {
				cur.Trusted = true
			}
		case "induction":
			if curLemma != nil {
				f := strings.Fields(rest)
				if len(f) > 0 {
					curLemma.Induction = f[0]
				}
				if len(f) >= 3 && f[1] == "step" {
					fmt.Sscanf(f[2], "%d", &curLemma.Step)
				}
			}
		case "props":
			if cur != nil {
				for _, pr := range strings.Fields(rest) {
					dup := false
					for _, q := range cur.Props {
						if q == pr {
							dup = true
						}
					}
					if !dup {
						cur.Props = append(cur.Props, pr)
					}
				}
			} else if curLemma != nil {
				curLemma.Props = strings.Fields(rest)
			}
		}
	}
	return nil
}

var hdrRe = regexp.MustCompile(`^(?:\(\s*\w*\s*\*?\s*([\w.]+)\s*\)\s*)?(\w+)`)

func contractKey(pkg *types.Package, hdr string) (string, error) {
	m := hdrRe.FindStringSubmatch(hdr)
	if m == nil {
		return "", fmt.Errorf("bad func header %q", hdr)
	}
	if m[1] != "" {
		return pkg.Name() + "." + m[1] + "." + m[2], nil
	}
	return pkg.Name() + "." + m[2], nil
}

func parseParams(s string) []SpecParam {
	var ps []SpecParam
	for _, part := range strings.Split(s, ",") {
		f := strings.Fields(part)
		if len(f) == 0 {
			continue
		}
		p := SpecParam{Name: f[0], Kind: "int", TyS: "int"}
		if len(f) > 1 {
			p.TyS = strings.Join(f[1:], " ")
			switch {
			case p.TyS == "bool":
				p.Kind = "bool"
			case p.TyS == "iface":
				p.Kind = "iface"
			case strings.HasPrefix(p.TyS, "[]"):
				p.Kind = "slice"
			case strings.HasPrefix(p.TyS, "*"):
				p.Kind = "ref"
			case strings.HasPrefix(p.TyS, "int") || strings.HasPrefix(p.TyS, "uint") || p.TyS == "byte":
				p.Kind = "int"
			default:
				p.Kind = "val"
			}
		}
		ps = append(ps, p)
	}
	// Go-style grouped parameters "a, b int": propagate the type backwards
	for i := len(ps) - 2; i >= 0; i-- {
		if ps[i].TyS == "int" && ps[i].Kind == "int" && !strings.Contains(strings.Split(s, ",")[i], " ") {
			ps[i].Kind, ps[i].TyS = ps[i+1].Kind, ps[i+1].TyS
		}
	}
	return ps
}

func parseSpec(pkg *types.Package, kw, rest string) (*SpecFn, error) {
	rec, abstract := false, false
	if strings.HasPrefix(rest, "rec ") {
		rec = true
		rest = strings.TrimSpace(rest[4:])
	}
	if strings.HasPrefix(rest, "abstract ") {
		// an uninterpreted function: only "equal arguments give equal results" is known about it
		rec, abstract = true, true
		rest = strings.TrimSpace(rest[len("abstract "):])
	}
	i := strings.Index(rest, "(")
	if i < 0 {
		return nil, fmt.Errorf("bad spec header")
	}
	// find matching paren
	depth, j := 0, -1
	for k := i; k < len(rest); k++ {
		if rest[k] == '(' {
			depth++
		} else if rest[k] == ')' {
			depth--
			if depth == 0 {
				j = k
				break
			}
		}
	}
	if j < 0 {
		return nil, fmt.Errorf("bad spec header")
	}
	sp := &SpecFn{Name: strings.TrimSpace(rest[:i]), Pkg: pkg, Params: parseParams(rest[i+1 : j]), Rec: rec, Result: "int"}
	tail := strings.TrimSpace(rest[j+1:])
	if abstract {
		if kw == "pred" || tail == "bool" {
			sp.Result = "bool"
		}
		return sp, nil
	}
	eq := strings.Index(tail, "=")
	if eq < 0 {
		return nil, fmt.Errorf("spec %s needs a body", sp.Name)
	}
	rt := strings.TrimSpace(tail[:eq])
	if kw == "pred" || rt == "bool" {
		sp.Result = "bool"
	}
	body, err := parseExpr(tail[eq+1:])
	if err != nil {
		return nil, err
	}
	sp.Body = body
	return sp, nil
}

// ---- engine look-ups --------------------------------------------------------------------------

func (e *Engine) contractOf(f *ssa.Function) *Contract {
	if f == nil {
		return nil
	}
	return e.contracts[e.fnKey(f)]
}

func (e *Engine) specOf(pkg *types.Package, name string) *SpecFn {
	if pkg != nil {
		if s, ok := e.specs[pkg.Path()+"."+name]; ok {
			return s
		}
	}
	return e.specsByName[name]
}

func (e *Engine) constOf(pkg *types.Package, name string) (string, bool) {
	if pkg == nil {
		return "", false
	}
	if o := pkg.Scope().Lookup(name); o != nil {
		if k, ok := o.(*types.Const); ok {
			if v := k.Val(); v != nil {
				s := v.ExactString()
				if _, err := fmt.Sscanf(s, "%d", new(int64)); err == nil || strings.TrimLeft(s, "-0123456789") == "" {
					return neg(s), true
				}
			}
		}
	}
	return "", false
}

func (e *Engine) typeIDByName(pkg *types.Package, name string) (int, bool) {
	ptr := strings.HasPrefix(name, "P_")
	name = strings.TrimPrefix(name, "P_")
	if pkg == nil {
		return 0, false
	}
	o := pkg.Scope().Lookup(name)
	if o == nil {
		return 0, false
	}
	t := o.Type()
	if ptr {
		t = types.NewPointer(t)
	}
	return e.typeID(t), true
}

// contractMods resolves a written modifies clause to heap keys.
func (e *Engine) contractMods(f *ssa.Function, ct *Contract) *ModSet {
	if ct.modset != nil {
		return ct.modset
	}
	m := newModSet()
	var derived *ModSet
	if f != nil {
		derived = e.fnModsRaw(f)
	}
	for _, pat := range ct.Modifies {
		if strings.HasPrefix(pat, "contents(") {
			continue // handled at the call site (window of a slice argument)
		}
		switch pat {
		case "nothing":
		case "alloc":
			m.Alloc = true
		case "derived":
			m.add(derived)
		default:
			// glob on heap key names: Type.* or Type.field or elem:uint8
			re := regexp.MustCompile(`^(\w+\.)?` + strings.ReplaceAll(regexp.QuoteMeta(pat), `\*`, ".*") + "(#.*)?$")
			matched := false
			e.keyMu.Lock()
			for k := range e.keyInfo {
				if re.MatchString(k) {
					m.Keys[k] = true
					matched = true
				}
			}
			e.keyMu.Unlock()
			if !matched {
				m.Keys[pat] = true
			}
		}
	}
	ct.modset = m
	return m
}

// ghostKeys: ghost variables mentioned in the postconditions of a contract (they change through that contract).
func (ct *Contract) ghostKeys() []string {
	if ct.ghosts != nil {
		return ct.ghosts
	}
	seen := map[string]bool{}
	var walk func(e *Expr)
	walk = func(e *Expr) {
		if e == nil {
			return
		}
		if e.Op == "call" && e.Name == "ghost" && len(e.A) == 1 && e.A[0].Op == "ident" {
			seen["ghost:"+e.A[0].Name] = true
		}
		for _, a := range e.A {
			walk(a)
		}
	}
	for _, en := range ct.Ensures {
		walk(en)
	}
	ct.ghosts = []string{}
	for k := range seen {
		ct.ghosts = append(ct.ghosts, k)
	}
	sort.Strings(ct.ghosts)
	return ct.ghosts
}

// fnModsRaw: body-derived write set even for contracted functions.
func (e *Engine) fnModsRaw(f *ssa.Function) *ModSet {
	m := newModSet()
	if f == nil || f.Blocks == nil {
		return m
	}
	for _, b := range f.Blocks {
		for _, in := range b.Instrs {
			e.instrMods(m, in, f, nil)
		}
	}
	return m
}

// sorted contract keys for reporting
func (e *Engine) contractKeys() []string {
	var ks []string
	for k := range e.contracts {
		ks = append(ks, k)
	}
	sort.Strings(ks)
	return ks
}

var _ = ast.Inspect
var _ = token.NoPos
