package main

import (
	"fmt"
	"go/types"
	"strconv"
	"strings"

	"golang.org/x/tools/go/ssa"
)

// ---- contract expression AST ------------------------------------------------------------------

type Expr struct {
	Op   string // int ident nil true false un bin call sel idx slice old forall exists cond let
	Name string // identifier / operator / field name / function name / bound variable
	Int  string
	A    []*Expr
	Src  string
	TyS  string // quantifier variable type text
}

type tok struct {
	k string // int id op eof
	s string
}

func lexExpr(s string) ([]tok, error) {
	var ts []tok
	i := 0
	ops := []string{"<==>", "==>", "::", "==", "!=", "<=", ">=", "&&", "||", "<<", ">>", "&^", "<", ">", "!", "+", "-", "*", "/", "%", "(", ")", "[", "]", ".", ",", ":", "?", "^", "&", "|", "=", "{", "}"}
	for i < len(s) {
		ch := s[i]
		if ch == ' ' || ch == '\t' || ch == '\n' {
			i++
			continue
		}
		if ch >= '0' && ch <= '9' {
			j := i
			for j < len(s) && (s[j] >= '0' && s[j] <= '9' || s[j] >= 'a' && s[j] <= 'f' || s[j] >= 'A' && s[j] <= 'F' || s[j] == 'x' || s[j] == 'X' || s[j] == '_') {
				j++
			}
			ts = append(ts, tok{"int", s[i:j]})
			i = j
			continue
		}
		if ch == '_' || ch >= 'a' && ch <= 'z' || ch >= 'A' && ch <= 'Z' {
			j := i
			for j < len(s) && (s[j] == '_' || s[j] >= 'a' && s[j] <= 'z' || s[j] >= 'A' && s[j] <= 'Z' || s[j] >= '0' && s[j] <= '9') {
				j++
			}
			ts = append(ts, tok{"id", s[i:j]})
			i = j
			continue
		}
		matched := false
		for _, o := range ops {
			if strings.HasPrefix(s[i:], o) {
				ts = append(ts, tok{"op", o})
				i += len(o)
				matched = true
				break
			}
		}
		if !matched {
			return nil, fmt.Errorf("bad character %q in %q", ch, s)
		}
	}
	ts = append(ts, tok{"eof", ""})
	return ts, nil
}

type parser struct {
	ts  []tok
	p   int
	src string
}

func parseExpr(s string) (e *Expr, err error) {
	ts, err := lexExpr(s)
	if err != nil {
		return nil, err
	}
	p := &parser{ts: ts, src: s}
	defer func() {
		if r := recover(); r != nil {
			err = fmt.Errorf("parse error in %q: %v", s, r)
		}
	}()
	e = p.expr()
	if p.peek().k != "eof" {
		panic("trailing tokens at " + p.peek().s)
	}
	e.Src = strings.TrimSpace(s)
	return e, nil
}

func (p *parser) peek() tok { return p.ts[p.p] }
func (p *parser) next() tok { t := p.ts[p.p]; p.p++; return t }
func (p *parser) isOp(s string) bool {
	t := p.peek()
	return t.k == "op" && t.s == s
}
func (p *parser) accept(s string) bool {
	if p.isOp(s) {
		p.p++
		return true
	}
	return false
}
func (p *parser) expect(s string) {
	if !p.accept(s) {
		panic("expected " + s + " got " + p.peek().s)
	}
}

func (p *parser) expr() *Expr {
	c := p.implies()
	if p.accept("?") {
		a := p.expr()
		p.expect(":")
		b := p.expr()
		return &Expr{Op: "cond", A: []*Expr{c, a, b}}
	}
	return c
}

func (p *parser) implies() *Expr {
	l := p.or()
	if p.accept("==>") {
		r := p.implies()
		return &Expr{Op: "bin", Name: "==>", A: []*Expr{l, r}}
	}
	if p.accept("<==>") {
		r := p.or()
		return &Expr{Op: "bin", Name: "<==>", A: []*Expr{l, r}}
	}
	return l
}

func (p *parser) or() *Expr {
	l := p.and()
	for p.accept("||") {
		r := p.and()
		l = &Expr{Op: "bin", Name: "||", A: []*Expr{l, r}}
	}
	return l
}

func (p *parser) and() *Expr {
	l := p.cmp()
	for p.accept("&&") {
		r := p.cmp()
		l = &Expr{Op: "bin", Name: "&&", A: []*Expr{l, r}}
	}
	return l
}

func (p *parser) cmp() *Expr {
	l := p.add()
	for _, o := range []string{"==", "!=", "<=", ">=", "<", ">"} {
		if p.accept(o) {
			r := p.add()
			return &Expr{Op: "bin", Name: o, A: []*Expr{l, r}}
		}
	}
	return l
}

func (p *parser) add() *Expr {
	l := p.mul()
	for {
		switch {
		case p.accept("+"):
			l = &Expr{Op: "bin", Name: "+", A: []*Expr{l, p.mul()}}
		case p.accept("-"):
			l = &Expr{Op: "bin", Name: "-", A: []*Expr{l, p.mul()}}
		case p.accept("|"):
			l = &Expr{Op: "bin", Name: "|", A: []*Expr{l, p.mul()}}
		case p.accept("^"):
			l = &Expr{Op: "bin", Name: "^", A: []*Expr{l, p.mul()}}
		default:
			return l
		}
	}
}

func (p *parser) mul() *Expr {
	l := p.unary()
	for {
		switch {
		case p.accept("*"):
			l = &Expr{Op: "bin", Name: "*", A: []*Expr{l, p.unary()}}
		case p.accept("/"):
			l = &Expr{Op: "bin", Name: "/", A: []*Expr{l, p.unary()}}
		case p.accept("%"):
			l = &Expr{Op: "bin", Name: "%", A: []*Expr{l, p.unary()}}
		case p.accept("<<"):
			l = &Expr{Op: "bin", Name: "<<", A: []*Expr{l, p.unary()}}
		case p.accept(">>"):
			l = &Expr{Op: "bin", Name: ">>", A: []*Expr{l, p.unary()}}
		case p.accept("&"):
			l = &Expr{Op: "bin", Name: "&", A: []*Expr{l, p.unary()}}
		default:
			return l
		}
	}
}

func (p *parser) unary() *Expr {
	if p.accept("!") {
		return &Expr{Op: "un", Name: "!", A: []*Expr{p.unary()}}
	}
	if p.accept("-") {
		return &Expr{Op: "un", Name: "-", A: []*Expr{p.unary()}}
	}
	if p.accept("*") {
		return &Expr{Op: "un", Name: "*", A: []*Expr{p.unary()}}
	}
	return p.postfix()
}

func (p *parser) postfix() *Expr {
	e := p.primary()
	for {
		switch {
		case p.accept("."):
			t := p.next()
			if t.k != "id" {
				panic("field name expected")
			}
			e = &Expr{Op: "sel", Name: t.s, A: []*Expr{e}}
		case p.accept("["):
			var lo, hi *Expr
			if !p.isOp(":") {
				lo = p.expr()
			}
			if p.accept(":") {
				if !p.isOp("]") {
					hi = p.expr()
				}
				p.expect("]")
				e = &Expr{Op: "slice", A: []*Expr{e, lo, hi}}
			} else {
				p.expect("]")
				e = &Expr{Op: "idx", A: []*Expr{e, lo}}
			}
		case p.isOp("(") && (e.Op == "ident" || e.Op == "sel"):
			p.next()
			var args []*Expr
			for !p.isOp(")") {
				args = append(args, p.expr())
				if !p.accept(",") {
					break
				}
			}
			p.expect(")")
			if e.Op == "sel" {
				// method call: receiver is first argument
				e = &Expr{Op: "call", Name: "." + e.Name, A: append([]*Expr{e.A[0]}, args...)}
			} else {
				e = &Expr{Op: "call", Name: e.Name, A: args}
			}
		default:
			return e
		}
	}
}

func (p *parser) primary() *Expr {
	t := p.next()
	switch t.k {
	case "int":
		s := strings.ReplaceAll(t.s, "_", "")
		if strings.HasPrefix(s, "0x") || strings.HasPrefix(s, "0X") {
			u, err := strconv.ParseUint(s[2:], 16, 64)
			if err != nil {
				panic(err)
			}
			s = strconv.FormatUint(u, 10)
		}
		return &Expr{Op: "int", Int: s}
	case "id":
		switch t.s {
		case "true", "false", "nil":
			return &Expr{Op: t.s}
		case "forall", "exists":
			var vars []string
			var tys []string
			for {
				v := p.next()
				if v.k != "id" {
					panic("bound variable expected")
				}
				ty := "int"
				if p.peek().k == "id" && p.peek().s == "in" {
					p.next()
					lo := p.next()
					p.expect(".")
					p.expect(".")
					hi := p.next()
					if lo.k != "int" || hi.k != "int" {
						panic("constant range expected")
					}
					ty = "range:" + lo.s + ":" + hi.s
				} else if p.peek().k == "id" {
					ty = p.next().s
				}
				vars = append(vars, v.s)
				tys = append(tys, ty)
				if !p.accept(",") {
					break
				}
			}
			p.expect("::")
			body := p.expr()
			e := body
			for i := len(vars) - 1; i >= 0; i-- {
				e = &Expr{Op: t.s, Name: vars[i], TyS: tys[i], A: []*Expr{e}}
			}
			return e
		case "old":
			p.expect("(")
			e := p.expr()
			p.expect(")")
			return &Expr{Op: "old", A: []*Expr{e}}
		case "let":
			v := p.next()
			p.expect("=")
			a := p.expr()
			in := p.next()
			if in.s != "in" {
				panic("expected in")
			}
			b := p.expr()
			return &Expr{Op: "let", Name: v.s, A: []*Expr{a, b}}
		}
		return &Expr{Op: "ident", Name: t.s}
	case "op":
		if t.s == "(" {
			e := p.expr()
			p.expect(")")
			return e
		}
	}
	panic("unexpected token " + t.s)
}

// ---- evaluation -------------------------------------------------------------------------------

// tv is a typed symbolic value in a contract expression.
type tv struct {
	v *Val
	t types.Type // nil for mathematical ints / bools
}

type evalEnv struct {
	c      *fnCtx
	lookup func(name string) (tv, bool)
	st     *State // state in which heap reads happen
	old    *State // entry state for old(...)
	oldLk  func(name string) (tv, bool)
	bound  map[string]tv
	pkg    *types.Package
	depth  int
}

type evalErr struct{ msg string }

func (ev *evalEnv) fail(f string, a ...interface{}) { panic(evalErr{fmt.Sprintf(f, a...)}) }

func mathInt(t string) tv  { return tv{v: iv(t)} }
func mathBool(t string) tv { return tv{v: bv(t)} }

func (ev *evalEnv) withState(st *State, f func() tv) tv {
	saved := ev.c.st
	ev.c.st = st
	defer func() { ev.c.st = saved }()
	return f()
}

// evalBool evaluates e to an SMT Bool term.
func (ev *evalEnv) evalBool(e *Expr) string {
	r := ev.eval(e)
	if r.v.K != KBool {
		ev.fail("boolean expected: %s", e.Src)
	}
	return r.v.T[0]
}

func (ev *evalEnv) evalInt(e *Expr) string {
	r := ev.eval(e)
	if r.v.K != KInt && r.v.K != KOpaque && r.v.K != KPtr {
		ev.fail("integer expected")
	}
	return r.v.T[0]
}

func (ev *evalEnv) eval(e *Expr) tv {
	c := ev.c
	switch e.Op {
	case "int":
		return mathInt(e.Int)
	case "true", "false":
		return mathBool(e.Op)
	case "nil":
		return tv{v: &Val{K: KOpaque, T: []string{"0", "0", "0", "0"}}}
	case "ident":
		if b, ok := ev.bound[e.Name]; ok {
			return b
		}
		if ev.lookup != nil {
			if r, ok := ev.lookup(e.Name); ok {
				return r
			}
		}
		if k, ok := c.eng.constOf(ev.pkg, e.Name); ok {
			return mathInt(k)
		}
		if ev.pkg != nil {
			if sp := c.eng.spkgs[ev.pkg.Path()]; sp != nil {
				if g, ok := sp.Members[e.Name].(*ssa.Global); ok {
					el := g.Type().Underlying().(*types.Pointer).Elem()
					saved := c.st
					c.st = ev.st
					v := c.load(c.val(g), el)
					c.st = saved
					return tv{v: v, t: el}
				}
			}
		}
		ev.fail("unknown identifier %s", e.Name)
	case "old":
		if ev.old == nil {
			return ev.eval(e.A[0])
		}
		saved, savedLk := ev.st, ev.lookup
		ev.st = ev.old
		if ev.oldLk != nil {
			ev.lookup = ev.oldLk
		}
		defer func() { ev.st, ev.lookup = saved, savedLk }()
		return ev.eval(e.A[0])
	case "un":
		switch e.Name {
		case "!":
			return mathBool("(not " + ev.evalBool(e.A[0]) + ")")
		case "-":
			return mathInt("(- " + ev.evalInt(e.A[0]) + ")")
		case "*":
			// load through a pointer to a non-struct value (*[]byte, *int ...) in the evaluation state
			x := ev.eval(e.A[0])
			if x.t == nil {
				ev.fail("dereference of untyped value")
			}
			pt, ok := x.t.Underlying().(*types.Pointer)
			if !ok {
				ev.fail("dereference of non-pointer %s", x.t)
			}
			if kindOf(pt.Elem()) == KStruct {
				return x
			}
			saved := c.st
			c.st = ev.st
			v := c.loadNoInv(x.v, pt.Elem())
			c.st = saved
			return tv{v: v, t: pt.Elem()}
		}
	case "cond":
		cnd := ev.evalBool(e.A[0])
		a, b := ev.eval(e.A[1]), ev.eval(e.A[2])
		if a.v.K == KBool {
			return mathBool("(ite " + cnd + " " + a.v.T[0] + " " + b.v.T[0] + ")")
		}
		if len(a.v.T) > 1 && len(a.v.T) == len(b.v.T) {
			r := &Val{K: a.v.K}
			for i := range a.v.T {
				r.T = append(r.T, "(ite "+cnd+" "+a.v.T[i]+" "+b.v.T[i]+")")
			}
			return tv{v: r, t: a.t}
		}
		return mathInt("(ite " + cnd + " " + a.v.T[0] + " " + b.v.T[0] + ")")
	case "let":
		a := ev.eval(e.A[0])
		old, had := ev.bound[e.Name]
		ev.bound[e.Name] = a
		r := ev.eval(e.A[1])
		if had {
			ev.bound[e.Name] = old
		} else {
			delete(ev.bound, e.Name)
		}
		return r
	case "forall", "exists":
		if strings.HasPrefix(e.TyS, "range:") {
			var lo, hi int
			fmt.Sscanf(e.TyS, "range:%d:%d", &lo, &hi)
			old, had := ev.bound[e.Name]
			var parts []string
			for k := lo; k < hi; k++ {
				ev.bound[e.Name] = mathInt(fmt.Sprint(k))
				parts = append(parts, ev.evalBool(e.A[0]))
			}
			if had {
				ev.bound[e.Name] = old
			} else {
				delete(ev.bound, e.Name)
			}
			op := "and"
			if e.Op == "exists" {
				op = "or"
			}
			if len(parts) == 0 {
				if e.Op == "exists" {
					return mathBool("false")
				}
				return mathBool("true")
			}
			return mathBool("(" + op + " " + strings.Join(parts, " ") + ")")
		}
		name := "q_" + sanitize(e.Name) + "_" + fmt.Sprint(ev.depth)
		ev.depth++
		old, had := ev.bound[e.Name]
		ev.bound[e.Name] = mathInt(name)
		c.em.inlineMode++
		body := ev.evalBool(e.A[0])
		c.em.inlineMode--
		if had {
			ev.bound[e.Name] = old
		} else {
			delete(ev.bound, e.Name)
		}
		ev.depth--
		return mathBool("(" + e.Op + " ((" + name + " Int)) " + body + ")")
	case "bin":
		return ev.bin(e)
	case "sel":
		x := ev.eval(e.A[0])
		return ev.selField(x, e.Name)
	case "idx":
		x := ev.eval(e.A[0])
		i := ev.evalInt(e.A[1])
		return ev.index(x, i)
	case "slice":
		x := ev.eval(e.A[0])
		if x.v.K != KSlice {
			ev.fail("slice expression on non-slice")
		}
		lo := "0"
		if e.A[1] != nil {
			lo = ev.evalInt(e.A[1])
		}
		hi := x.v.T[2]
		if e.A[2] != nil {
			hi = ev.evalInt(e.A[2])
		}
		return tv{v: &Val{K: KSlice, T: []string{x.v.T[0], "(+ " + x.v.T[1] + " " + lo + ")", "(- " + hi + " " + lo + ")", "(- " + x.v.T[3] + " " + lo + ")"}}, t: x.t}
	case "call":
		return ev.call(e)
	}
	ev.fail("cannot evaluate %s", e.Op)
	return tv{}
}

func (ev *evalEnv) bin(e *Expr) tv {
	switch e.Name {
	case "&&":
		return mathBool("(and " + ev.evalBool(e.A[0]) + " " + ev.evalBool(e.A[1]) + ")")
	case "||":
		return mathBool("(or " + ev.evalBool(e.A[0]) + " " + ev.evalBool(e.A[1]) + ")")
	case "==>":
		return mathBool("(=> " + ev.evalBool(e.A[0]) + " " + ev.evalBool(e.A[1]) + ")")
	case "<==>":
		return mathBool("(= " + ev.evalBool(e.A[0]) + " " + ev.evalBool(e.A[1]) + ")")
	case "==", "!=":
		a, b := ev.eval(e.A[0]), ev.eval(e.A[1])
		var f string
		switch {
		case e.A[1].Op == "nil" || e.A[0].Op == "nil":
			x := a
			if e.A[0].Op == "nil" {
				x = b
			}
			f = "(= " + x.v.T[0] + " 0)"
		case a.v.K == KStruct || a.v.K == KArr:
			if a.t != nil {
				f = ev.c.valEq(a.t, a.v, b.v)
			} else {
				f = eqVals(a.v, b.v)
			}
		default:
			f = eqVals(a.v, b.v)
		}
		if e.Name == "!=" {
			f = "(not " + f + ")"
		}
		return mathBool(f)
	case "<", "<=", ">", ">=":
		return mathBool("(" + e.Name + " " + ev.evalInt(e.A[0]) + " " + ev.evalInt(e.A[1]) + ")")
	case "+", "-", "*":
		return mathInt("(" + e.Name + " " + ev.evalInt(e.A[0]) + " " + ev.evalInt(e.A[1]) + ")")
	case "/":
		return mathInt("(div " + ev.evalInt(e.A[0]) + " " + ev.evalInt(e.A[1]) + ")")
	case "%":
		return mathInt("(mod " + ev.evalInt(e.A[0]) + " " + ev.evalInt(e.A[1]) + ")")
	case "<<", ">>", "&":
		if e.A[1].Op != "int" {
			ev.fail("%s needs a constant right operand", e.Name)
		}
		n, _ := strconv.ParseUint(e.A[1].Int, 10, 64)
		a := ev.evalInt(e.A[0])
		switch e.Name {
		case "<<":
			return mathInt("(* " + a + " " + pow2(int64(n)) + ")")
		case ">>":
			return mathInt("(div " + a + " " + pow2(int64(n)) + ")")
		}
		return mathInt(andConst(a, n))
	case "^", "|":
		ev.fail("use bitxorN(a,b)/bitorN(a,b) in contracts")
	}
	ev.fail("bad operator %s", e.Name)
	return tv{}
}

func derefStruct(t types.Type) (types.Type, bool) {
	if t == nil {
		return nil, false
	}
	if p, ok := t.Underlying().(*types.Pointer); ok {
		return p.Elem(), true
	}
	return t, false
}

func (ev *evalEnv) selField(x tv, name string) tv {
	c := ev.c
	if x.t == nil {
		ev.fail("field %s of untyped value", name)
	}
	// pseudo fields of slices
	if x.v.K == KSlice {
		switch name {
		case "arr":
			return mathInt(x.v.T[0])
		case "off":
			return mathInt(x.v.T[1])
		}
	}
	st, isPtr := derefStruct(x.t)
	obj, path, _ := types.LookupFieldOrMethod(st, true, ev.pkg, name)
	fv, ok := obj.(*types.Var)
	if !ok || !fv.IsField() {
		// try without package restriction for unexported fields of other packages
		if s, ok2 := st.Underlying().(*types.Struct); ok2 {
			for i := 0; i < s.NumFields(); i++ {
				if s.Field(i).Name() == name {
					path = []int{i}
					ok = true
				}
			}
		}
		if !ok {
			ev.fail("no field %s in %s", name, st)
		}
	}
	cur := x
	curT := st
	for _, idx := range path {
		s := curT.Underlying().(*types.Struct)
		f := s.Field(idx)
		if isPtr {
			var r tv
			saved := c.st
			c.st = ev.st
			fp := c.fieldPtr(curT, f, cur.v.T[0])
			switch kindOf(f.Type()) {
			case KStruct:
				r = tv{v: fp, t: types.NewPointer(f.Type())}
				c.st = saved
				cur = r
				curT = f.Type()
				isPtr = true
				continue
			case KArr:
				// expose embedded array as slice over its storage
				at := f.Type().Underlying().(*types.Array)
				r = tv{v: &Val{K: KSlice, T: []string{fp.T[0], "0", fmt.Sprint(at.Len()), fmt.Sprint(at.Len())}}, t: types.NewSlice(at.Elem())}
				c.st = saved
				return r
			}
			v := c.load(fp, f.Type())
			c.st = saved
			cur = tv{v: v, t: f.Type()}
			curT = f.Type()
			if p, ok := f.Type().Underlying().(*types.Pointer); ok {
				curT = p.Elem()
				isPtr = true
			} else {
				isPtr = false
			}
		} else {
			if idx >= len(cur.v.F) {
				ev.fail("field index")
			}
			cur = tv{v: cur.v.F[idx], t: f.Type()}
			curT = f.Type()
			if p, ok := f.Type().Underlying().(*types.Pointer); ok {
				curT = p.Elem()
				isPtr = true
			}
		}
	}
	return cur
}

func (ev *evalEnv) index(x tv, i string) tv {
	c := ev.c
	switch x.v.K {
	case KSlice:
		var et types.Type = types.Typ[types.Uint8]
		if x.t != nil {
			if sl, ok := x.t.Underlying().(*types.Slice); ok {
				et = sl.Elem()
			}
		}
		saved := c.st
		c.st = ev.st
		defer func() { c.st = saved }()
		p := c.elemPtr(et, x.v.T[0], "(+ "+x.v.T[1]+" "+i+")")
		switch kindOf(et) {
		case KStruct:
			return tv{v: p, t: types.NewPointer(et)}
		}
		return tv{v: c.loadNoInv(p, et), t: et}
	case KArr:
		var et types.Type = types.Typ[types.Uint8]
		if x.t != nil {
			if at, ok := x.t.Underlying().(*types.Array); ok {
				et = at.Elem()
			}
		}
		if len(x.v.T) == 1 {
			return tv{v: &Val{K: kindOf(et), T: []string{"(select " + x.v.T[0] + " " + i + ")"}}, t: et}
		}
	}
	ev.fail("cannot index")
	return tv{}
}

// loadNoInv reads without emitting type-invariant assertions (contract expressions may be under quantifiers).
func (c *fnCtx) loadNoInv(p *Val, t types.Type) *Val {
	if p.P == nil || p.P.Op {
		return c.load(p, t)
	}
	two := p.P.Arr != ""
	v := &Val{K: kindOf(t)}
	for _, cp := range scalarComponents(t) {
		v.T = append(v.T, c.sel(p.P.Key, cp.suf, cp.sort, two, p.P.Arr, p.P.Idx))
	}
	return v
}

func (ev *evalEnv) call(e *Expr) tv {
	c := ev.c
	switch e.Name {
	case "len":
		x := ev.eval(e.A[0])
		switch x.v.K {
		case KSlice:
			return mathInt(x.v.T[2])
		case KStr:
			return mathInt(x.v.T[1])
		case KArr:
			if at, ok := x.t.Underlying().(*types.Array); ok {
				return mathInt(fmt.Sprint(at.Len()))
			}
		}
		ev.fail("len of non-slice")
	case "cap":
		x := ev.eval(e.A[0])
		if x.v.K == KSlice {
			return mathInt(x.v.T[3])
		}
		ev.fail("cap of non-slice")
	case "int", "int8", "int16", "int32", "int64", "uint", "uint8", "uint16", "uint32", "uint64", "byte":
		return mathInt(ev.evalInt(e.A[0]))
	case "wrap8", "wrap16", "wrap32", "wrap64":
		n, _ := strconv.Atoi(e.Name[4:])
		return mathInt("(mod " + ev.evalInt(e.A[0]) + " " + pow2(int64(n)) + ")")
	case "bitxor64", "bitxor32", "bitxor16", "bitxor8", "bitor64", "bitor32", "bitor16", "bitor8", "bitand64", "bitand32", "bitand16", "bitand8":
		if !c.em.declared[e.Name] {
			c.em.declared[e.Name] = true
			fmt.Fprintf(&c.em.out, "(declare-fun %s (Int Int) Int)\n", e.Name)
		}
		return mathInt("(" + e.Name + " " + ev.evalInt(e.A[0]) + " " + ev.evalInt(e.A[1]) + ")")
	case "arreq":
		a, b := ev.eval(e.A[0]), ev.eval(e.A[1])
		if a.v.K != KArr || b.v.K != KArr {
			ev.fail("arreq needs array values")
		}
		return mathBool("(= " + a.v.T[0] + " " + b.v.T[0] + ")")
	case "sameArray":
		a, b := ev.eval(e.A[0]), ev.eval(e.A[1])
		return mathBool("(= " + a.v.T[0] + " " + b.v.T[0] + ")")
	case "sameSlice":
		a, b := ev.eval(e.A[0]), ev.eval(e.A[1])
		return mathBool(fmt.Sprintf("(and (= %s %s) (= %s %s) (= %s %s))", a.v.T[0], b.v.T[0], a.v.T[1], b.v.T[1], a.v.T[2], b.v.T[2]))
	case "fresh":
		// the object/array did not exist in the entry state
		a := ev.eval(e.A[0])
		saved := c.st
		c.st = ev.old
		if ev.old == nil {
			c.st = ev.st
		}
		wm := c.heapGet("$wm")
		c.st = saved
		return mathBool("(> (owner " + a.v.T[0] + ") " + wm + ")")
	case "typeis":
		a := ev.eval(e.A[0])
		if a.v.K != KIface || e.A[1].Op != "ident" {
			ev.fail("typeis(iface, TypeName)")
		}
		id, ok := c.eng.typeIDByName(ev.pkg, e.A[1].Name)
		if !ok {
			ev.fail("unknown type %s", e.A[1].Name)
		}
		return mathBool(fmt.Sprintf("(= %s %d)", a.v.T[0], id))
	case "cast":
		// cast(ifaceValue, TypeName): the *TypeName held by the interface value
		a := ev.eval(e.A[0])
		if a.v.K != KIface || e.A[1].Op != "ident" || ev.pkg == nil {
			ev.fail("cast(iface, TypeName)")
		}
		o := ev.pkg.Scope().Lookup(e.A[1].Name)
		if o == nil {
			ev.fail("unknown type %s", e.A[1].Name)
		}
		return tv{v: &Val{K: KPtr, T: []string{a.v.T[1]}}, t: types.NewPointer(o.Type())}
	case "ifaceptr":
		a := ev.eval(e.A[0])
		return mathInt(a.v.T[1])
	case "be16":
		x := ev.eval(e.A[0])
		i := ev.evalInt(e.A[1])
		b0 := ev.index(x, i).v.T[0]
		b1 := ev.index(x, "(+ "+i+" 1)").v.T[0]
		return mathInt("(+ (* 256 " + b0 + ") " + b1 + ")")
	case "be32":
		x := ev.eval(e.A[0])
		i := ev.evalInt(e.A[1])
		var parts []string
		for k := 0; k < 4; k++ {
			b := ev.index(x, fmt.Sprintf("(+ %s %d)", i, k)).v.T[0]
			parts = append(parts, "(* "+pow2(int64(8*(3-k)))+" "+b+")")
		}
		return mathInt("(+ " + strings.Join(parts, " ") + ")")
	case "le16":
		x := ev.eval(e.A[0])
		i := ev.evalInt(e.A[1])
		b0 := ev.index(x, i).v.T[0]
		b1 := ev.index(x, "(+ "+i+" 1)").v.T[0]
		return mathInt("(+ (* 256 " + b1 + ") " + b0 + ")")
	case "le32":
		x := ev.eval(e.A[0])
		i := ev.evalInt(e.A[1])
		var parts []string
		for k := 0; k < 4; k++ {
			b := ev.index(x, fmt.Sprintf("(+ %s %d)", i, k)).v.T[0]
			parts = append(parts, "(* "+pow2(int64(8*k))+" "+b+")")
		}
		return mathInt("(+ " + strings.Join(parts, " ") + ")")
	case "deferred":
		// deferred(funcName): a defer of that function dominates the current program point
		if e.A[0].Op != "ident" {
			ev.fail("deferred(funcName)")
		}
		for _, d := range c.defers {
			if cal := d.Call.StaticCallee(); cal != nil && cal.Name() == e.A[0].Name {
				if d.Block() == c.curB || d.Block().Dominates(c.curB) {
					return mathBool("true")
				}
			}
		}
		return mathBool("false")
	case "heap":
		// heap(Type.field, ref): the value of a scalar field of an arbitrary object (for heap-wide invariants)
		if e.A[0].Op != "sel" || e.A[0].A[0].Op != "ident" || ev.pkg == nil {
			ev.fail("heap(Type.field, ref)")
		}
		o := ev.pkg.Scope().Lookup(e.A[0].A[0].Name)
		if o == nil {
			ev.fail("unknown type %s", e.A[0].A[0].Name)
		}
		ref := ev.evalInt(e.A[1])
		return ev.selField(tv{v: &Val{K: KPtr, T: []string{ref}}, t: types.NewPointer(o.Type())}, e.A[0].Name)
	case "inited":
		// inited(s, lo, hi): bytes s[lo:hi] have been written since the window they belong to was handed out (C07)
		if len(e.A) != 3 {
			ev.fail("inited(slice, lo, hi)")
		}
		sl := ev.eval(e.A[0])
		if sl.v == nil || sl.v.K != KSlice {
			ev.fail("inited(slice, lo, hi)")
		}
		lo, hi := ev.evalInt(e.A[1]), ev.evalInt(e.A[2])
		if !c.initOn() {
			return mathBool("true")
		}
		saved := c.st
		c.st = ev.st
		c.em.regKey(initKey, "Bool", true)
		h := c.heapGet(initKey)
		c.st = saved
		k := c.em.fresh("qi")
		return mathBool(fmt.Sprintf("(forall ((%s Int)) (=> (and (<= %s %s) (< %s %s)) (select (select %s %s) (+ %s %s))))", k, lo, k, k, hi, h, sl.v.T[0], sl.v.T[1], k))
	case "sbview":
		// sbview(b): the contents of a SerializeBuffer as a byte sequence (abstract view of the interface contract)
		b := ev.eval(e.A[0])
		if b.v == nil || b.v.K != KIface {
			ev.fail("sbview(serializeBuffer)")
		}
		saved := c.st
		c.st = ev.st
		get := func(key string) string {
			c.em.regKey(key, "Int", false)
			return "(select " + c.heapGet(key) + " " + b.v.T[1] + ")"
		}
		arr, off, ln := get("ghost:sbArr"), get("ghost:sbOff"), get("ghost:sbLen")
		c.st = saved
		return tv{v: &Val{K: KSlice, T: []string{arr, off, ln, ln}}, t: types.NewSlice(types.Typ[types.Uint8])}
	case "ghost":
		if e.A[0].Op != "ident" {
			ev.fail("ghost(name)")
		}
		saved := c.st
		c.st = ev.st
		defer func() { c.st = saved }()
		k := "ghost:" + e.A[0].Name
		c.em.regKey(k, "Int", false)
		return mathInt("(select " + c.heapGet(k) + " 0)")
	}
	// spec functions and predicates
	if sp := c.eng.specOf(ev.pkg, e.Name); sp != nil {
		return ev.applySpec(sp, e)
	}
	ev.fail("unknown function %s", e.Name)
	return tv{}
}

// applySpec: non-recursive spec functions are macro-expanded; recursive ones are uninterpreted
// symbols with a depth-1 unfolding of the defining equation asserted per occurrence.
func (ev *evalEnv) applySpec(sp *SpecFn, e *Expr) tv {
	c := ev.c
	if len(e.A) != len(sp.Params) {
		ev.fail("spec %s: %d arguments expected", sp.Name, len(sp.Params))
	}
	args := make([]tv, len(e.A))
	for i, a := range e.A {
		args[i] = ev.eval(a)
	}
	if !sp.Rec {
		return ev.expandSpec(sp, args)
	}
	// uninterpreted application
	var sorts, terms []string
	for i, p := range sp.Params {
		switch p.Kind {
		case "slice":
			k := elemKey(types.Typ[types.Uint8])
			if args[i].t != nil {
				if sl, ok := args[i].t.Underlying().(*types.Slice); ok {
					k = elemKey(sl.Elem())
				}
			}
			c.em.regKey(k, "Int", true)
			saved := c.st
			c.st = ev.st
			h := c.heapGet(k)
			c.st = saved
			if args[i].v.K == KArr {
				sorts = append(sorts, "(Array Int Int)", "Int")
				terms = append(terms, args[i].v.T[0], "0")
			} else {
				sorts = append(sorts, "(Array Int Int)", "Int")
				terms = append(terms, "(select "+h+" "+args[i].v.T[0]+")", args[i].v.T[1])
			}
			if specUsesLen(sp, p.Name) {
				sorts = append(sorts, "Int")
				if args[i].v.K == KArr {
					terms = append(terms, "16")
				} else {
					terms = append(terms, args[i].v.T[2])
				}
			}
		case "bool":
			sorts = append(sorts, "Bool")
			terms = append(terms, args[i].v.T[0])
		case "iface":
			if args[i].v.K != KIface || len(args[i].v.T) < 2 {
				ev.fail("spec %s: argument %d must be an interface value", sp.Name, i)
			}
			sorts = append(sorts, "Int", "Int")
			terms = append(terms, args[i].v.T[0], args[i].v.T[1])
		default:
			sorts = append(sorts, "Int")
			terms = append(terms, args[i].v.T[0])
		}
	}
	fn := "spec_" + sp.Name
	if !c.em.declared[fn] {
		c.em.declared[fn] = true
		rs := "Int"
		if sp.Result == "bool" {
			rs = "Bool"
		}
		fmt.Fprintf(&c.em.out, "(declare-fun %s (%s) %s)\n", fn, strings.Join(sorts, " "), rs)
	}
	app := "(" + fn + " " + strings.Join(terms, " ") + ")"
	res := mathInt(app)
	if sp.Result == "bool" {
		res = mathBool(app)
	}
	// depth-1 unfolding (only outside quantifier scopes whose bound variables occur: still sound inside,
	// since the equation is universally valid; emitted inline as an implication-free conjunct is not
	// possible inside a quantifier body, so unfold only ground occurrences)
	if sp.Body != nil && len(ev.bound) == 0 && ev.depth == 0 && sp.unfolding < 1 {
		key := "unfold|" + app
		if !c.em.declared[key] {
			c.em.declared[key] = true
			sp.unfolding++
			body := ev.expandSpec(sp, args)
			sp.unfolding--
			c.em.assert("(= " + app + " " + body.v.T[0] + ")")
		}
	}
	return res
}

func (ev *evalEnv) expandSpec(sp *SpecFn, args []tv) tv {
	sub := &evalEnv{c: ev.c, st: ev.st, old: ev.old, bound: map[string]tv{}, pkg: sp.Pkg, depth: ev.depth}
	for k, v := range ev.bound {
		_ = k
		_ = v
	}
	for i, p := range sp.Params {
		sub.bound[p.Name] = args[i]
	}
	// bound quantifier variables of the caller stay visible by name only through arguments
	return sub.eval(sp.Body)
}

// specUsesLen reports whether the body of a spec mentions len(param).
func specUsesLen(sp *SpecFn, name string) bool {
	var rec func(e *Expr) bool
	rec = func(e *Expr) bool {
		if e == nil {
			return false
		}
		if e.Op == "call" && (e.Name == "len" || e.Name == "cap") && len(e.A) == 1 && e.A[0].Op == "ident" && e.A[0].Name == name {
			return true
		}
		for _, a := range e.A {
			if rec(a) {
				return true
			}
		}
		return false
	}
	return rec(sp.Body)
}
