package main

import (
	"fmt"
	"go/types"
	"sync"

	"golang.org/x/tools/go/ssa"
)

// Derived ("auto") postconditions: for in-module callees without a written contract the engine tries to prove a
// fixed set of thin postconditions on the callee itself (function by function); only proved ones are assumed
// at call sites. The callee's own verification lists them as obligations of class "autopost".

type autoPostResult struct {
	once   sync.Once
	exprs  []*Expr // proved clauses
	tried  []*Expr
	proved []bool
}

func (e *Engine) autoPostCandidates(f *ssa.Function) []*Expr {
	var res []*Expr
	if isDecodeFromBytes(f) && len(f.Params) >= 2 {
		recv, data := f.Params[0], f.Params[1]
		pt, ok := recv.Type().Underlying().(*types.Pointer)
		if ok {
			if obj, _, _ := types.LookupFieldOrMethod(pt.Elem(), true, f.Pkg.Pkg, "Payload"); obj != nil {
				if v, isVar := obj.(*types.Var); isVar && v.IsField() && isByteSlice(v.Type()) {
					src := fmt.Sprintf("result == nil ==> (len(%s.Payload) == 0 || len(%s.Payload) < len(%s))", recv.Name(), recv.Name(), data.Name())
					if x, err := parseExpr(src); err == nil {
						res = append(res, x)
					}
				}
			}
		}
	}
	return res
}

// autoPost returns the proved derived postconditions of f (computing them on first use).
func (e *Engine) autoPost(f *ssa.Function) []*Expr {
	if f == nil || f.Blocks == nil || !e.isModule(f) || e.contractOf(f) != nil {
		return nil
	}
	cands := e.autoPostCandidates(f)
	if len(cands) == 0 {
		return nil
	}
	v, _ := e.autoPosts.LoadOrStore(f, &autoPostResult{})
	ar := v.(*autoPostResult)
	ar.once.Do(func() {
		ar.tried = cands
		ar.proved = make([]bool, len(cands))
		defer func() {
			if r := recover(); r != nil {
				// the callee is outside the subset: nothing derived
			}
		}()
		em := newEmit()
		c := e.newCtx(f, em)
		c.ct = &Contract{Key: e.fnKey(f) + "(derived)", Pkg: c.pkgOf(f), Ensures: cands, Loops: map[int]*LoopSpec{}}
		fmt.Fprintf(&em.out, "(declare-fun elem (Int Int) Int)\n(declare-fun elem_arr (Int) Int)\n(declare-fun elem_idx (Int) Int)\n(declare-fun rkind (Int) Int)\n(declare-fun owner (Int) Int)\n(declare-fun atype (Int) Int)\n(assert (= (owner 0) 0))\n")
		c.st = &State{epoch: 0, m: map[string]string{}}
		em.wm0 = c.heapGet("$wm")
		c.reach = map[*ssa.BasicBlock]string{}
		c.curB = f.Blocks[0]
		c.reach[c.curB] = "true"
		for _, p := range f.Params {
			pv := c.freshVal(p.Type(), "p_"+sanitize(p.Name()))
			if pv.K == KPtr || pv.K == KIface {
				em.assert("(not (= " + pv.T[0] + " 0))")
			}
			c.vals[p] = pv
			c.params = append(c.params, pv)
		}
		c.entry = c.st.clone()
		// Houdini is skipped: loops are cut with type invariants only (cheap; enough for header-only decoders)
		for k := range c.dead {
			delete(c.dead, k)
		}
		c.noCands = true
		c.run()
		c.checkPost(c.params)
		var posts []*Obl
		for _, o := range c.obls {
			if o.Class == "post" {
				posts = append(posts, o)
			}
		}
		e.solve(em.out.String(), posts, 8000, nil, true)
		// a clause is proved when it holds at every return
		for i := range cands {
			ok := true
			n := 0
			for _, o := range posts {
				var idx int
				if _, err := fmt.Sscanf(o.Name[len(o.Fn)+len("#post:"):], "e%d", &idx); err == nil && idx == i {
					n++
					if o.Result != "proved" {
						ok = false
					}
				}
			}
			ar.proved[i] = ok && n > 0
			if ar.proved[i] {
				ar.exprs = append(ar.exprs, cands[i])
			}
		}
	})
	return ar.exprs
}

// assumeAutoPost adds the proved derived postconditions of callee at a call site.
func (c *fnCtx) assumeAutoPost(callee *ssa.Function, args []*Val, r *Val, rt types.Type) {
	posts := c.eng.autoPost(callee)
	if len(posts) == 0 {
		return
	}
	env := c.contractEnv(callee, args, unpackResults(r, rt), c.st, c.st)
	for _, en := range posts {
		f, err := c.safeEval(env, en)
		if err != nil {
			continue
		}
		c.em.assert("(=> " + c.reach[c.curB] + " " + f + ")")
	}
	c.eng.noteContractUse(c.eng.fnKey(callee) + " (derived postcondition)")
}
