package main

import (
	"bufio"
	"encoding/json"
	"flag"
	"fmt"
	"os"
	"path/filepath"
	"regexp"
	"sort"
	"strconv"
	"strings"
	"sync"
	"time"

	"golang.org/x/tools/go/ssa"
)

type Ledger struct {
	Property    string            `json:"property"`
	Proved      []string          `json:"proved"`
	Unproved    map[string]string `json:"unproved"`      // obligation -> reason (tool limit, abstraction)
	OutOfSubset map[string]string `json:"out_of_subset"` // function -> reason
	Functions   []string          `json:"functions"`
	proved      map[string]bool
}

func loadLedger(dir, id string) *Ledger {
	l := &Ledger{Property: id, Unproved: map[string]string{}, OutOfSubset: map[string]string{}, proved: map[string]bool{}}
	b, err := os.ReadFile(filepath.Join(dir, "ledger", id+".json"))
	if err != nil {
		return l
	}
	json.Unmarshal(b, l)
	if l.Unproved == nil {
		l.Unproved = map[string]string{}
	}
	if l.OutOfSubset == nil {
		l.OutOfSubset = map[string]string{}
	}
	l.proved = map[string]bool{}
	for _, p := range l.Proved {
		l.proved[p] = true
	}
	return l
}

type Finding struct {
	Status     string // open | fixed
	Property   string
	Obligation string
	Witness    string
	What       string
	Raw        string
}

// known findings file: one per line
//
//	open: property=C19 obligation=<name> witness=<hex|-> :: <what fails>
//	fixed: property=C09 <commit> <what failed>
func loadFindings(dir string) []Finding {
	var fs []Finding
	f, err := os.Open(filepath.Join(dir, "known_findings.txt"))
	if err != nil {
		return nil
	}
	defer f.Close()
	sc := bufio.NewScanner(f)
	sc.Buffer(make([]byte, 1<<20), 1<<24)
	for sc.Scan() {
		l := strings.TrimSpace(sc.Text())
		if l == "" || strings.HasPrefix(l, "#") {
			continue
		}
		fd := Finding{Raw: l}
		switch {
		case strings.HasPrefix(l, "open:"):
			fd.Status = "open"
			body := strings.TrimSpace(strings.TrimPrefix(l, "open:"))
			if i := strings.Index(body, " :: "); i >= 0 {
				fd.What = body[i+4:]
				body = body[:i]
			}
			for _, kv := range strings.Fields(body) {
				if j := strings.Index(kv, "="); j > 0 {
					switch kv[:j] {
					case "property":
						fd.Property = kv[j+1:]
					case "obligation":
						fd.Obligation = kv[j+1:]
					case "witness":
						fd.Witness = kv[j+1:]
					}
				}
			}
		case strings.HasPrefix(l, "fixed:"):
			fd.Status = "fixed"
			for _, kv := range strings.Fields(l) {
				if strings.HasPrefix(kv, "property=") {
					fd.Property = kv[len("property="):]
				}
			}
		default:
			continue
		}
		fs = append(fs, fd)
	}
	return fs
}

type Evidence struct {
	PropertyID  string                 `json:"property_id"`
	Tier        string                 `json:"tier"`
	Seed        int                    `json:"seed"`
	Level       string                 `json:"level"`
	Coverage    map[string]interface{} `json:"coverage"`
	Assumptions []string               `json:"assumptions"`
	WallS       float64                `json:"wall_s"`
	Violations  int                    `json:"violations"`
}

// classes whose violation shows as a panic or a hang of the real function (what the replay harness observes)
var replayable = map[string]bool{"idx": true, "slice": true, "nil": true, "div": true, "make": true, "typeassert": true, "mapnil": true, "panic": true, "pre": true, "dec": true, "reset": true}

var contractClasses = map[string]bool{"pre": false, "post": true, "inv-entry": true, "inv-pres": true, "frame": true, "assert": true, "cover": true, "typestate": true, "typestate-err": true, "init": true, "reset": true, "recover": true, "subtype": true, "writers": true, "lemma": true, "frame-in": true, "frame-glob": true, "frame-ro": true, "cap": true, "alloc": true, "progress": true}

func checkCmd(args []string) {
	fs := flag.NewFlagSet("check", flag.ExitOnError)
	prop := fs.String("property", "", "property id")
	tier := fs.String("tier", "quick", "quick|thorough")
	update := fs.Bool("update-ledger", false, "rewrite the ledger from this run (pinned tree only; never used by registered checks)")
	repo := fs.String("repo", "/repo", "")
	vdir := fs.String("verif", "/verif", "")
	verbose := fs.Bool("v", false, "")
	dump := fs.String("dump", "", "")
	noReplay := fs.Bool("no-replay", false, "")
	noSkip := fs.Bool("noskip", false, "debug: solve the obligations the ledger lists as not claimed too")
	only := fs.String("only", "", "debug: restrict the scope to functions whose key matches this regexp (never used by registered checks)")
	fs.Parse(args)
	t0 := time.Now()
	seed := 0
	if s := os.Getenv("VERIF_SEED"); s != "" {
		seed, _ = strconv.Atoi(s)
	}
	if t := os.Getenv("VERIF_TIER"); t != "" && (t == "quick" || t == "thorough") {
		*tier = t
	}
	sc := scopes()[*prop]
	if sc == nil {
		fmt.Fprintf(os.Stderr, "unknown property %q\n", *prop)
		os.Exit(2)
	}
	e := newEngine(*repo)
	e.opts = Options{TimeoutMs: 6000, Verbose: *verbose, Tier: *tier, DumpDir: *dump}
	if *tier == "thorough" {
		e.opts.TimeoutMs = 15000
	} else {
		// an obligation the full context leaves undecided gets a second query on the quantifier-free part of the
		// context: a model found there is a candidate counterexample for the replay (quick tier: only obligations
		// that were proved on the pinned tree are solved at all, so this costs nothing on an unchanged tree)
		e.opts.RefuteQF = true
	}
	if *update {
		// the ledger claims only what discharges well under the timeout of a registered run (3x margin)
		e.opts.TimeoutMs = 2000
		e.opts.RefuteQF = true
	}
	if err := e.load(corePkgs); err != nil {
		fmt.Fprintln(os.Stderr, "BROKEN: cannot load /repo:", err)
		os.Exit(2)
	}
	loadS := time.Since(t0).Seconds()
	ledger := loadLedger(*vdir, *prop)
	if *tier == "quick" && !*update && !*noSkip {
		e.skipObl = map[string]bool{}
		for k := range ledger.Unproved {
			e.skipObl[k] = true
		}
		// an obligation named by an open finding is always solved: its KNOWN-FINDING line is printed while it
		// still fails and disappears once the defect is repaired
		for _, f := range loadFindings(*vdir) {
			if f.Status == "open" && f.Property == *prop {
				delete(e.skipObl, f.Obligation)
			}
		}
	}
	roots := sc.Roots(e)
	fns := roots
	isRoot := map[*ssa.Function]bool{}
	for _, r := range roots {
		isRoot[r] = true
	}
	if sc.Closure {
		fns, isRoot = e.closure(roots)
	}
	// contracts tagged with this property bring their functions into scope
	for _, k := range e.contractKeys() {
		ct := e.contracts[k]
		for _, p := range ct.Props {
			if p == *prop {
				if f := e.fnByKey[k]; f != nil {
					dup := false
					for _, g := range fns {
						if g == f {
							dup = true
						}
					}
					if !dup {
						fns = append(fns, f)
					}
				}
			}
		}
	}
	if *only != "" {
		re := regexp.MustCompile(*only)
		var keep []*ssa.Function
		for _, f := range fns {
			if re.MatchString(e.fnKey(f)) {
				keep = append(keep, f)
			}
		}
		fns = keep
	}
	fmt.Fprintf(os.Stderr, "[%.1fs] loaded; %d functions in scope\n", time.Since(t0).Seconds(), len(fns))
	results := e.verifyAll(fns, func(f *ssa.Function) *FnConfig { return sc.Cfg(e, f, isRoot[f]) })
	// an obligation that discharged on the pinned tree and now times out gets a second, longer attempt before it is judged
	if !*update {
		retried := 0
		var rwg sync.WaitGroup
		for _, r := range results {
			var again []*Obl
			for _, o := range r.Obls {
				if o.Result == "unknown" && ledger.proved[o.Name] && !o.final {
					again = append(again, o)
				}
			}
			if len(again) == 0 || r.script == "" {
				continue
			}
			retried += len(again)
			rwg.Add(1)
			go func(r *FnResult, again []*Obl) {
				defer rwg.Done()
				for _, o := range again {
					o.Result = ""
				}
				r.SolverMs += e.solve(r.script, again, 5*e.opts.TimeoutMs, r.ModelVars, true)
			}(r, again)
		}
		rwg.Wait()
		if retried > 0 {
			fmt.Fprintf(os.Stderr, "[%.1fs] %d timed-out obligations retried with a 5x budget\n", time.Since(t0).Seconds(), retried)
		}
	}
	fmt.Fprintf(os.Stderr, "[%.1fs] verification conditions solved\n", time.Since(t0).Seconds())
	lemmaObls := e.verifyLemmas(*prop)
	lemmaObls = append(lemmaObls, e.subtypeObligations(*prop)...)
	lemmaObls = append(lemmaObls, e.writersObligations(*prop)...)

	// ---- triage --------------------------------------------------------------------------------
	findings := loadFindings(*vdir)
	openF := map[string]Finding{}
	for _, f := range findings {
		if f.Status == "open" && f.Property == *prop {
			openF[f.Obligation] = f
		}
	}
	type item struct {
		o   *Obl
		res *FnResult
	}
	var all []item
	for _, r := range results {
		for _, o := range r.Obls {
			all = append(all, item{o, r})
		}
	}
	for _, o := range lemmaObls {
		all = append(all, item{o, nil})
	}
	nObl, nProved, nSkipped := 0, 0, 0
	byBackend := map[string]int{}
	var solverMs int64
	for _, r := range results {
		solverMs += r.SolverMs
	}
	unprovedFamilies := map[string]bool{}
	for k := range ledger.Unproved {
		unprovedFamilies[retFamily(k)] = true
	}
	var unprovedNow, knownLines, undecided []string
	var needReplay []item
	seenFinding := map[string]bool{}
	for _, it := range all {
		o := it.o
		if o.Result == "skipped" {
			nSkipped++
			continue
		}
		nObl++
		if o.Result == "proved" {
			nProved++
			byBackend[o.By]++
			continue
		}
		if f, ok := openF[o.Name]; ok {
			if !seenFinding[o.Name] {
				seenFinding[o.Name] = true
				knownLines = append(knownLines, fmt.Sprintf("KNOWN-FINDING: property=%s %s %s", *prop, o.Name, f.What))
			}
			continue
		}
		if _, ok := ledger.Unproved[o.Name]; ok && !*update {
			unprovedNow = append(unprovedNow, o.Name)
			if *verbose {
				fmt.Fprintf(os.Stderr, "NOTPROVED %s %s\n", o.Name, o.Result)
			}
			continue
		}
		// obligations numbered by return statement: an edit that adds or removes a return renumbers them. A name
		// that is new (neither proved nor listed on the pinned tree) belongs to the not-claimed family when the
		// same clause is listed as not claimed at some other return of the function.
		if !*update && !ledger.proved[o.Name] && unprovedFamilies[retFamily(o.Name)] && retFamily(o.Name) != o.Name {
			unprovedNow = append(unprovedNow, o.Name)
			continue
		}
		needReplay = append(needReplay, it)
	}
	// replays for everything that is neither proved, known nor in the ledger
	var cases []*ReplayCase
	caseOf := map[*Obl]*ReplayCase{}
	if !*noReplay && !sc.NoReplay {
		var cand []item
		nLift := 0
		for _, it := range needReplay {
			if it.res == nil || len(it.o.Any) > 0 && it.o.Class != "dec" {
				continue
			}
			if !replayable[it.o.Class] {
				continue
			}
			if it.o.Result != "refuted" && it.o.Class != "dec" {
				continue
			}
			if !isRoot[it.res.Fn] {
				// a helper may rely on what its callers guarantee: calling it directly proves nothing about the
				// property. Its counterexample is lifted through the call sites to an entry point instead.
				if it.o.Class == "dec" || it.o.Class == "reset" || len(it.o.Any) > 0 {
					continue
				}
				nLift++
				if !*update && nLift > 48 {
					continue
				}
			}
			cand = append(cand, it)
		}
		callers := map[*ssa.Function][]liftCaller{}
		for _, r := range results {
			for _, cs := range r.CallSites {
				callers[cs.callee] = append(callers[cs.callee], liftCaller{res: r, site: cs})
			}
		}
		outs := make([]*ReplayCase, len(cand))
		alts := make([]*ReplayCase, len(cand)) // second attempt of a lifted counterexample (bytes matched too)
		var wg sync.WaitGroup
		sem := make(chan bool, 16)
		for i, it := range cand {
			wg.Add(1)
			sem <- true
			go func(i int, it item) {
				defer wg.Done()
				defer func() { <-sem }()
				if !isRoot[it.res.Fn] {
					q := oblQueries(it.o)
					if len(q) != 1 || len(q[0]) != 1 {
						return
					}
					viol := []string{"(not " + q[0][0] + ")"}
					for _, withBytes := range []bool{false, true} {
						budget := 10
						rootRes, model := e.liftToRoot(it.res, viol, nil, callers, isRoot, withBytes, 0, &budget)
						if rootRes == nil {
							continue
						}
						if rc, ok := e.buildReplay(rootRes, it.o, model); ok {
							rc.Lifted = e.fnKey(rootRes.Fn)
							if withBytes && outs[i] != nil {
								alts[i] = rc
							} else {
								outs[i] = rc
							}
						}
					}
					return
				}
				model := e.modelPass(it.res, it.o)
				if model == nil {
					return
				}
				if rc, ok := e.buildReplay(it.res, it.o, model); ok {
					outs[i] = rc
				}
			}(i, it)
		}
		wg.Wait()
		fmt.Fprintf(os.Stderr, "[%.1fs] %d model passes done\n", time.Since(t0).Seconds(), len(cand))
		for i, rc := range outs {
			if rc != nil {
				cases = append(cases, rc)
				caseOf[cand[i].o] = rc
			}
			if alts[i] != nil {
				cases = append(cases, alts[i])
			}
		}
		if len(cases) > 0 {
			e.runReplays(cases)
		}
		if *verbose {
			for _, rc := range cases {
				fmt.Fprintf(os.Stderr, "REPLAY %s lifted=%q -> %s %s confirms=%v inputs=%v\n", rc.Obl.Name, rc.Lifted, rc.Outcome, rc.Detail, rc.Confirms, rc.Inputs)
			}
		}
		for i, rc := range alts {
			if rc != nil && rc.Confirms && (outs[i] == nil || !outs[i].Confirms) {
				caseOf[cand[i].o] = rc
			}
		}
	}
	fmt.Fprintf(os.Stderr, "[%.1fs] %d replays done\n", time.Since(t0).Seconds(), len(cases))
	var violations []string
	replayDir := filepath.Join(*vdir, "replays", *prop)
	writeReplay := func(o *Obl, rc *ReplayCase, why string) string {
		os.MkdirAll(replayDir, 0755)
		p := filepath.Join(replayDir, sanitize(o.Name)+".json")
		m := map[string]interface{}{"property": *prop, "obligation": o.Name, "function": o.Fn, "class": o.Class, "clause": o.Text,
			"position": fmt.Sprintf("%s:%d", o.Pos.Filename, o.Pos.Line), "verdict": o.Result, "solver": o.By, "solver_output": o.Raw, "model": o.Model, "why": why}
		if rc != nil {
			m["replay_inputs"] = rc.Inputs
			m["replay_setup"] = rc.Setup
			m["replay_call"] = rc.Call
			m["replay_outcome"] = rc.Outcome
			m["replay_detail"] = rc.Detail
			m["replay_package"] = rc.PkgDir
			if rc.Lifted != "" {
				m["lifted_to_entry_point"] = rc.Lifted
			}
		}
		b, _ := json.MarshalIndent(m, "", " ")
		os.WriteFile(p, b, 0644)
		return p
	}
	var newFindings []string
	for _, it := range needReplay {
		o := it.o
		rc := caseOf[o]
		switch {
		case rc != nil && rc.Confirms:
			p := writeReplay(o, rc, "solver model replayed on the real code: "+rc.Outcome+" "+rc.Detail)
			violations = append(violations, fmt.Sprintf("VIOLATION property=%s replay=%s", *prop, p))
			w := "-"
			for _, v := range rc.Inputs {
				if len(v) > len(w) {
					w = v
				}
			}
			newFindings = append(newFindings, fmt.Sprintf("open: property=%s obligation=%s witness=%s :: %s %s (%s:%d) %s", *prop, o.Name, w, o.Class, o.Text, shortFile(o.Pos.Filename), o.Pos.Line, rc.Detail))
		case ledger.proved[o.Name] && !(o.Class == "cover" && o.Result != "refuted"):
			p := writeReplay(o, rc, "obligation discharged on the pinned tree and fails now")
			violations = append(violations, fmt.Sprintf("VIOLATION property=%s replay=%s no-failing-input-found", *prop, p))
		case o.Class == "cover" && (o.Result != "refuted" || !ledger.proved[o.Name]):
			// the vacuity guard only speaks when the assumptions are shown inconsistent (unsat); a solver that
			// gives up on the satisfiability query says nothing
			undecided = append(undecided, o.Name)
		case contractClasses[o.Class]:
			p := writeReplay(o, rc, "contract obligation not discharged")
			violations = append(violations, fmt.Sprintf("VIOLATION property=%s replay=%s no-failing-input-found", *prop, p))
		default:
			undecided = append(undecided, o.Name)
		}
	}
	// functions that left the subset
	var oos []string
	for _, r := range results {
		if r.OutOfSub != "" {
			oos = append(oos, r.Key+": "+r.OutOfSub)
			if _, known := ledger.OutOfSubset[r.Key]; !known && !*update {
				undecided = append(undecided, r.Key+" (function outside the verifier's subset: "+r.OutOfSub+")")
			}
		}
	}
	sort.Strings(knownLines)
	for _, l := range knownLines {
		fmt.Println(l)
	}
	for _, u := range undecided {
		fmt.Printf("UNDECIDED property=%s %s\n", *prop, u)
	}
	for _, er := range e.engineErrs {
		fmt.Println("ENGINE-ERROR:", er)
	}

	if *update {
		nl := &Ledger{Property: *prop, Unproved: map[string]string{}, OutOfSubset: map[string]string{}}
		for _, it := range all {
			o := it.o
			if o.Result == "proved" {
				nl.Proved = append(nl.Proved, o.Name)
			} else if _, isF := openF[o.Name]; !isF {
				rc := caseOf[o]
				if rc != nil && rc.Confirms {
					continue // genuine: must be fixed or recorded as a known finding, never ledgered
				}
				why := o.Result + " " + o.Raw
				if rc != nil {
					why += "; model does not replay (" + rc.Outcome + ")"
				}
				nl.Unproved[o.Name] = why
			}
		}
		for _, r := range results {
			nl.Functions = append(nl.Functions, r.Key)
			if r.OutOfSub != "" {
				nl.OutOfSubset[r.Key] = r.OutOfSub
			}
		}
		sort.Strings(nl.Proved)
		sort.Strings(nl.Functions)
		os.MkdirAll(filepath.Join(*vdir, "ledger"), 0755)
		b, _ := json.MarshalIndent(nl, "", " ")
		os.WriteFile(filepath.Join(*vdir, "ledger", *prop+".json"), b, 0644)
		fmt.Printf("ledger updated: proved=%d unproved=%d out-of-subset=%d\n", len(nl.Proved), len(nl.Unproved), len(nl.OutOfSubset))
		os.Remove(filepath.Join(*vdir, "ledger", *prop+".candidates.txt"))
		if len(newFindings) > 0 {
			cand := filepath.Join(*vdir, "ledger", *prop+".candidates.txt")
			os.WriteFile(cand, []byte(strings.Join(newFindings, "\n")+"\n"), 0644)
			fmt.Printf("%d confirmed defects written to %s (fix or add to known_findings.txt)\n", len(newFindings), cand)
		}
	}

	if len(e.engineErrs) > 0 && !*update {
		// A contract clause that can no longer be evaluated (a field or parameter it names is gone, a call it is
		// anchored at has a different shape) means the source no longer has the structure the property's contract
		// describes: on the pinned tree every clause evaluates, so this is reported as a violation of the clause.
		os.MkdirAll(replayDir, 0755)
		for i, er := range e.engineErrs {
			p := filepath.Join(replayDir, fmt.Sprintf("contract_not_applicable_%d.json", i))
			b, _ := json.MarshalIndent(map[string]interface{}{"property": *prop, "obligation": "contract-applies", "class": "contract", "why": "a contract clause cannot be evaluated on the current source", "detail": er}, "", " ")
			os.WriteFile(p, b, 0644)
			violations = append(violations, fmt.Sprintf("VIOLATION property=%s replay=%s no-failing-input-found", *prop, p))
		}
	}

	// ---- evidence ------------------------------------------------------------------------------
	var fnKeys []string
	contracted := 0
	for _, r := range results {
		fnKeys = append(fnKeys, r.Key)
		if e.contracts[r.Key] != nil {
			contracted++
		}
	}
	var samples []interface{}
	for i, it := range all {
		if it.o.Result == "proved" && len(samples) < 6 && i%(len(all)/6+1) == 0 {
			samples = append(samples, map[string]string{"obligation": it.o.Name, "class": it.o.Class, "clause": it.o.Text, "result": it.o.Result, "backend": it.o.By})
		}
	}
	for _, it := range needReplay {
		if len(samples) < 10 {
			samples = append(samples, map[string]string{"obligation": it.o.Name, "class": it.o.Class, "clause": it.o.Text, "result": it.o.Result})
		}
	}
	sort.Strings(unprovedNow)
	cov := map[string]interface{}{
		// claimed obligations of this run: everything generated that is neither a known finding, nor listed as not
		// claimed, nor a new obligation the run could not decide (those are listed under undecided_new)
		"obligations":              nProved + len(violations),
		"discharged":               nProved,
		"checker_cmd":              fmt.Sprintf("bin/govc check -property %s -tier %s  (VCs from go/ssa of /repo's working tree; solvers z3-new 5.1.0, z3 4.8.12, cvc5 1.0)", *prop, *tier),
		"trusted_base":             trustedBase(),
		"functions_under_contract": fnKeys,
		"functions":                len(fnKeys),
		"written_contracts":        contracted,
		"by_backend":               byBackend,
		"solver_time_s":            float64(solverMs) / 1000,
		"load_time_s":              loadS,
		"obligations_generated":    nObl + nSkipped,
		"unproved_not_claimed":     unprovedNow,
		"unproved_skipped_quick":   nSkipped,
		"known_findings":           knownLines,
		"undecided_new":            undecided,
		"out_of_subset":            oos,
		"not_covered":              sc.NotCovered,
		"replays_run":              len(cases),
		"samples":                  samples,
		"derived_contracts":        len(e.derived),
		"inlined_callees":          len(e.inlined),
		"external_callees_assumed": sortedKeys(e.externals),
		"assumed_entry_preconditions":     entryPreconditions(e, results, isRoot),
		"excluded_fields_keeps":           keepsClauses(e, results),
		"abstract_spec_functions":         abstractSpecs(e),
		"contracts_applied_at_call_sites": contractsApplied(e, false),
		"assumed_contracts_applied":       contractsApplied(e, true),
		"interface_calls_assumed":  sortedKeys(e.invokes),
		"engine_errors":            e.engineErrs,
		"technique":                sc.Technique,
	}
	ev := Evidence{PropertyID: *prop, Tier: *tier, Seed: seed, Level: "proof", Coverage: cov, Assumptions: assumptions(), WallS: time.Since(t0).Seconds(), Violations: len(violations)}
	if !*update && *only == "" {
		// evidence is written by registered runs only (a ledger update also solves the obligations that are not
		// claimed, so its counts do not describe a check run)
		os.MkdirAll(filepath.Join(*vdir, "evidence"), 0755)
		b, _ := json.MarshalIndent(ev, "", " ")
		os.WriteFile(filepath.Join(*vdir, "evidence", *prop+".json"), b, 0644)
	}
	fmt.Printf("property=%s tier=%s functions=%d obligations=%d discharged=%d known-findings=%d unproved(ledger)=%d skipped(ledger,quick)=%d undecided=%d violations=%d wall=%.1fs\n",
		*prop, *tier, len(fnKeys), nObl, nProved, len(knownLines), len(unprovedNow), nSkipped, len(undecided), len(violations), time.Since(t0).Seconds())
	if nObl == 0 {
		fmt.Println("BROKEN: no obligations generated (vacuous run)")
		os.Exit(2)
	}
	if len(violations) > 0 && !*update {
		for _, v := range violations {
			fmt.Println(v)
		}
		os.Exit(1)
	}
}

func trustedBase() []string {
	return []string{
		"go/packages + go/types + go/ssa (x/tools v0.29.0) build the IR of /repo faithfully; the SSA->SMT translation rules of govc",
		"z3 5.1.0 / z3 4.8.12 / cvc5 1.0 answer unsat only for unsatisfiable input",
		"modelled external functions: encoding/binary.{Big,Little}Endian.{Uint,PutUint}{16,32,64}, errors.New, fmt.Errorf, bytes.Equal, io.ReadFull, builtins copy/append/len/cap/min/max",
		"unmodelled external functions do not panic and write at most the contents of their slice/pointer arguments (listed under external_callees_assumed)",
		"user-implementable interfaces (DecodeFeedback, PacketBuilder, SerializeBuffer, Layer, io.Reader ...) obey their interface contracts",
	}
}

func assumptions() []string {
	return []string{
		"single-threaded semantics: goroutines, channels, select are outside the subset (functions using them are listed out_of_subset, never counted as proved)",
		"integers: Go wrap-around modelled over SMT Int with explicit mod 2^N; int/uint are 64 bit",
		"memory: 0 <= len <= cap <= 2^56 for every slice; no unsafe aliasing; struct fields modelled as per-field heap arrays (Burstall-Bornat); a *T parameter to a scalar does not alias a struct field",
		"pointer parameters / receivers and interface parameters are non-nil on entry; pointer-typed fields and results may be nil",
		"strings are opaque values with a length; maps are uninterpreted; floating point is opaque",
		"non-| ^ & of two non-constant operands are uninterpreted with sound range axioms",
		"in-module callees without a written contract: inlined when loop-free and small, otherwise havoc of their computed transitive write set with fresh results",
		"loops: cut at the header with Houdini-inferred invariants (candidate set fixed in loops.go) plus invariants from the contract files",
		"reflect, unsafe, cgo are outside the subset",
	}
}

// contractsApplied lists the contracts used at call sites in this run; assumed=true selects the contracts whose
// bodies are not verified (extern functions, interfaces that user code may implement).
func contractsApplied(e *Engine, assumed bool) []string {
	var r []string
	for _, k := range sortedKeys(e.ctUsed) {
		if strings.HasPrefix(k, "ASSUMED ") == assumed {
			r = append(r, strings.TrimPrefix(k, "ASSUMED "))
		}
	}
	return r
}

// retFamily strips the return-statement label from an obligation name.
func retFamily(name string) string {
	if i := strings.Index(name, "/ret:"); i >= 0 {
		return name[:i] + "/ret:*"
	}
	if i := strings.Index(name, "#cover:ret:"); i >= 0 {
		return name[:i] + "#cover:ret:*"
	}
	return name
}

// entryPreconditions lists the requires clauses of functions that have no caller inside the scope of this run:
// nothing in the run establishes them, so they are assumptions about the state the function is entered in.
// keepsClauses: fields excluded by name from the C05 reset obligations (reviewed exclusions, each with its reason in
// the contract file).
func keepsClauses(e *Engine, results []*FnResult) []string {
	var out []string
	for _, r := range results {
		if ct := e.contracts[r.Key]; ct != nil && len(ct.Keeps) > 0 {
			out = append(out, r.Key+": keeps "+strings.Join(ct.Keeps, " "))
		}
	}
	sort.Strings(out)
	return out
}

// abstractSpecs: uninterpreted spec functions (only "equal arguments give equal results" is assumed about them).
func abstractSpecs(e *Engine) []string {
	var out []string
	for _, sp := range e.specsByName {
		if sp.Rec && sp.Body == nil {
			out = append(out, sp.Name)
		}
	}
	sort.Strings(out)
	return out
}

func entryPreconditions(e *Engine, results []*FnResult, isRoot map[*ssa.Function]bool) []string {
	called := map[*ssa.Function]bool{}
	for _, r := range results {
		for _, cs := range r.CallSites {
			called[cs.callee] = true
		}
	}
	var out []string
	for _, r := range results {
		ct := e.contracts[r.Key]
		if ct == nil || len(ct.Requires) == 0 || called[r.Fn] {
			continue
		}
		for _, rq := range ct.Requires {
			out = append(out, r.Key+": requires "+rq.Src)
		}
	}
	sort.Strings(out)
	return out
}
