package main

import (
	"go/types"
	"strings"

	"golang.org/x/tools/go/ssa"
)

// ModSet is the set of heap keys a piece of code may write (an over-approximation), or Top.
type ModSet struct {
	Top   bool
	Alloc bool
	Keys  map[string]bool
	Fresh map[string]bool // keys written only on objects allocated inside the region itself
}

func newModSet() *ModSet { return &ModSet{Keys: map[string]bool{}, Fresh: map[string]bool{}} }

func (m *ModSet) add(o *ModSet) bool {
	if o == nil {
		return false
	}
	ch := false
	if o.Top && !m.Top {
		m.Top = true
		ch = true
	}
	if o.Alloc && !m.Alloc {
		m.Alloc = true
		ch = true
	}
	for k := range o.Keys {
		if !m.Keys[k] {
			m.Keys[k] = true
			ch = true
		}
	}
	for k := range o.Fresh {
		if !m.Fresh[k] {
			m.Fresh[k] = true
			ch = true
		}
	}
	return ch
}

func (e *Engine) noteKey(k, sort string, two bool) {
	e.keyMu.Lock()
	if _, ok := e.keyInfo[k]; !ok {
		e.keyInfo[k] = keyInfo{sort, two}
	}
	e.keyMu.Unlock()
}

// keysOfType adds every heap key used to store a value of type t at a location described by base key.
func (e *Engine) addScalarKeys(m *ModSet, base string, t types.Type, two bool) {
	for _, cp := range scalarComponents(t) {
		m.Keys[base+cp.suf] = true
		e.noteKey(base+cp.suf, cp.sort, two)
	}
}

func (e *Engine) addStructKeys(m *ModSet, t types.Type, depth int) {
	st, ok := t.Underlying().(*types.Struct)
	if !ok || depth > 5 {
		return
	}
	for i := 0; i < st.NumFields(); i++ {
		f := st.Field(i)
		switch kindOf(f.Type()) {
		case KStruct:
			e.addStructKeys(m, f.Type(), depth+1)
		case KArr:
			e.addElemKeys(m, f.Type().Underlying().(*types.Array).Elem(), depth+1)
		default:
			e.addScalarKeys(m, fieldKey(t, f), f.Type(), false)
		}
	}
}

func (e *Engine) addElemKeys(m *ModSet, et types.Type, depth int) {
	switch kindOf(et) {
	case KStruct:
		e.addStructKeys(m, et, depth)
	case KArr:
		e.addElemKeys(m, et.Underlying().(*types.Array).Elem(), depth+1)
	default:
		e.addScalarKeys(m, elemKey(et), et, true)
	}
}

// storeKeys: keys written by a store of a value of type t through address value addr.
func (e *Engine) storeKeys(m *ModSet, addr ssa.Value, t types.Type) {
	switch a := addr.(type) {
	case *ssa.FieldAddr:
		st := a.X.Type().Underlying().(*types.Pointer).Elem()
		f := st.Underlying().(*types.Struct).Field(a.Field)
		switch kindOf(t) {
		case KStruct:
			e.addStructKeys(m, t, 0)
		case KArr:
			e.addElemKeys(m, t.Underlying().(*types.Array).Elem(), 0)
		default:
			e.addScalarKeys(m, fieldKey(st, f), t, false)
		}
		return
	case *ssa.IndexAddr:
		e.addElemKeys(m, t, 0)
		return
	}
	// pointer of unknown origin (param, alloc, loaded pointer, phi)
	switch kindOf(t) {
	case KStruct:
		e.addStructKeys(m, t, 0)
	case KArr:
		e.addElemKeys(m, t.Underlying().(*types.Array).Elem(), 0)
	default:
		if _, isAlloc := addr.(*ssa.Alloc); isAlloc {
			e.addScalarKeys(m, cellKey(t), t, false)
			return
		}
		if _, isGlobal := addr.(*ssa.Global); isGlobal {
			e.addScalarKeys(m, cellKey(t), t, false)
			return
		}
		// a *T parameter may point at a field or element: cell key plus elem key; fields of the
		// same type are covered by the call-site havoc of explicit field pointers.
		e.addScalarKeys(m, cellKey(t), t, false)
		e.addScalarKeys(m, elemKey(t), t, true)
	}
}

// instrMods accumulates the keys written by one instruction (callees resolved through fnMods).
func (e *Engine) instrMods(m *ModSet, in ssa.Instruction, self *ssa.Function, region map[*ssa.BasicBlock]bool) {
	switch in := in.(type) {
	case *ssa.Store:
		if a, ok := rootOfAddr(in.Addr).(*ssa.Alloc); ok && (region == nil || region[a.Block()]) {
			// a store into an object allocated inside the region: existing objects are unaffected
			f := &ModSet{Keys: m.Fresh}
			e.storeKeys(f, in.Addr, in.Val.Type())
			return
		}
		e.storeKeys(m, in.Addr, in.Val.Type())
	case *ssa.Alloc:
		m.Alloc = true
		el := in.Type().Underlying().(*types.Pointer).Elem()
		f := &ModSet{Keys: m.Fresh}
		e.storeKeys(f, in, el)
	case *ssa.MakeSlice:
		m.Alloc = true
		e.addElemKeys(m, in.Type().Underlying().(*types.Slice).Elem(), 0)
	case *ssa.MakeMap, *ssa.MakeClosure, *ssa.MakeChan:
		m.Alloc = true
	case *ssa.MakeInterface:
	case *ssa.Go, *ssa.Send, *ssa.Select:
		m.Top = true
	case *ssa.Defer:
		e.callMods(m, in.Common(), self)
	case ssa.CallInstruction:
		e.callMods(m, in.Common(), self)
	}
}

func (e *Engine) callMods(m *ModSet, cc *ssa.CallCommon, self *ssa.Function) {
	if bi, ok := cc.Value.(*ssa.Builtin); ok {
		switch bi.Name() {
		case "append":
			m.Alloc = true
			if sl, ok := cc.Args[0].Type().Underlying().(*types.Slice); ok {
				e.addElemKeys(m, sl.Elem(), 0)
			}
		case "copy":
			if sl, ok := cc.Args[0].Type().Underlying().(*types.Slice); ok {
				e.addElemKeys(m, sl.Elem(), 0)
			}
		case "clear":
			if sl, ok := cc.Args[0].Type().Underlying().(*types.Slice); ok {
				e.addElemKeys(m, sl.Elem(), 0)
			}
		}
		return
	}
	if cc.IsInvoke() {
		m.add(e.invokeMods(cc))
		return
	}
	callee := cc.StaticCallee()
	if callee == nil {
		// dynamic function value: unknown
		m.Top = true
		return
	}
	if ct := e.contractOf(callee); ct != nil {
		for _, g := range ct.ghostKeys() {
			m.Keys[g] = true
		}
		if ct.Modifies != nil {
			m.add(e.contractMods(callee, ct))
			return
		}
	}
	if ct := e.externCts[callee.String()]; ct != nil {
		for _, g := range ct.ghostKeys() {
			m.Keys[g] = true
		}
		if ct.Modifies != nil {
			m.add(e.contractMods(nil, ct))
			return
		}
	}
	if e.isModule(callee) && callee.Blocks != nil {
		if callee == self {
			return
		}
		m.add(e.fnMods(callee))
		return
	}
	m.add(e.externalMods(callee, cc))
}

// externalMods: functions outside the module write (at most) the contents reachable through their
// slice / pointer arguments; a table of known-pure functions avoids the havoc.
func (e *Engine) externalMods(callee *ssa.Function, cc *ssa.CallCommon) *ModSet {
	m := newModSet()
	name := callee.String()
	if pureExternal(name) {
		return m
	}
	m.Alloc = true
	for _, a := range cc.Args {
		switch t := a.Type().Underlying().(type) {
		case *types.Slice:
			if strings.HasSuffix(name, "ndian).PutUint16") || strings.HasSuffix(name, "ndian).PutUint32") || strings.HasSuffix(name, "ndian).PutUint64") ||
				strings.HasPrefix(name, "io.ReadFull") || strings.HasPrefix(name, "io.ReadAtLeast") || strings.Contains(name, ").Read") || strings.HasPrefix(name, "encoding/binary.Read") ||
				!knownReadOnlySliceUser(name) {
				e.addElemKeys(m, t.Elem(), 0)
			}
		case *types.Pointer:
			if !knownReadOnlySliceUser(name) {
				el := t.Elem()
				switch kindOf(el) {
				case KStruct:
					// external code writing one of our structs through a pointer: only std structs in practice
					if e.isModuleType(el) {
						e.addStructKeys(m, el, 0)
					}
				case KArr:
					e.addElemKeys(m, el.Underlying().(*types.Array).Elem(), 0)
				default:
					e.addScalarKeys(m, cellKey(el), el, false)
				}
			}
		case *types.Interface:
			// an interface argument holding one of our pointers (e.g. binary.Read(r, order, &x)) may be written
			if strings.HasPrefix(name, "encoding/binary.Read") || strings.HasPrefix(name, "encoding/json.") || strings.HasPrefix(name, "fmt.Sscan") || strings.HasPrefix(name, "fmt.Fscan") {
				m.Top = true
			}
		}
	}
	return m
}

func pureExternal(name string) bool {
	for _, p := range []string{"fmt.Errorf", "fmt.Sprint", "errors.New", "errors.Is", "errors.As", "strconv.", "strings.", "bytes.Equal", "bytes.Compare", "bytes.Index", "bytes.HasPrefix",
		"bytes.HasSuffix", "bytes.Contains", "bytes.Trim", "bytes.Split", "bytes.Fields", "bytes.ToLower", "bytes.ToUpper", "bytes.Count", "bytes.LastIndex", "bytes.EqualFold",
		"(encoding/binary.bigEndian).Uint", "(encoding/binary.littleEndian).Uint", "encoding/hex.", "math.", "math/bits.", "unicode", "time.", "(time.", "net.IP", "(net.IP", "(net.Hardware", "net.Parse",
		"(*net.IPNet)", "net.CIDRMask", "(net.IPMask", "hash/crc32.", "sort.Search", "(*sync.", "(*sync/atomic.", "sync/atomic.", "os.Getenv", "log.", "(*log.", "runtime.", "runtime/debug.", "(*strings.Builder)",
		"(*bytes.Buffer).Len", "(*bytes.Buffer).Bytes", "(*bytes.Buffer).String", "(*errors.", "(reflect.", "reflect.", "net/netip.", "(net/netip.", "slices.", "maps.", "(*fmt.", "fmt.Fprint", "fmt.Print", "encoding/base64.", "(*encoding/base64.", "html.", "path.", "unicode/utf8."} {
		if strings.HasPrefix(name, p) {
			return true
		}
	}
	return false
}

func knownReadOnlySliceUser(name string) bool {
	for _, p := range []string{"(*bufio.Writer).Write", "(*bytes.Buffer).Write", "(*os.File).Write", "crypto/", "hash/", "(*compress/gzip.Writer).Write", "(*hash/"} {
		if strings.HasPrefix(name, p) {
			return true
		}
	}
	return false
}

// invokeMods: effect of interface method calls. User-implementable interfaces are assumed to obey the
// stated frame (listed in the evidence as assumptions about user code).
func (e *Engine) invokeMods(cc *ssa.CallCommon) *ModSet {
	m := newModSet()
	name := cc.Method.Name()
	recv := cc.Value.Type().String()
	switch {
	case strings.HasSuffix(recv, "gopacket.SerializeBuffer"):
		if name == "PrependBytes" || name == "AppendBytes" || name == "Clear" {
			m.Alloc = true
			// the abstract view of the buffer (ghost state of the interface contract) changes
			for _, k := range []string{"ghost:sbArr", "ghost:sbOff", "ghost:sbLen"} {
				m.Keys[k] = true
			}
		}
		return m
	case strings.HasSuffix(recv, "gopacket.DecodeFeedback"), strings.HasSuffix(recv, "gopacket.PacketBuilder"):
		m.Alloc = true
		return m
	case strings.HasSuffix(recv, "gopacket.Layer"), strings.HasSuffix(recv, "gopacket.LayerClass"), strings.HasSuffix(recv, "gopacket.Decoder"),
		strings.HasSuffix(recv, "Layer") && (name == "LayerType" || name == "LayerContents" || name == "LayerPayload" || name == "CanDecode" || name == "NextLayerType" || name == "Payload"),
		recv == "error", strings.HasSuffix(recv, "fmt.Stringer"):
		if strings.HasSuffix(recv, "gopacket.Decoder") {
			m.Top = true
		}
		return m
	case strings.HasSuffix(recv, "io.Reader"), strings.HasSuffix(recv, "io.ByteReader"), strings.HasSuffix(recv, "io.ReadCloser"):
		m.Alloc = true
		for _, a := range cc.Args {
			if sl, ok := a.Type().Underlying().(*types.Slice); ok {
				e.addElemKeys(m, sl.Elem(), 0)
			}
		}
		return m
	case strings.HasSuffix(recv, "io.Writer"), strings.HasSuffix(recv, "io.WriteCloser"), strings.HasSuffix(recv, "io.Closer"):
		m.Alloc = true
		return m
	}
	// in-module interfaces: union of the implementers' write sets
	if iface, ok := cc.Value.Type().Underlying().(*types.Interface); ok {
		impls := e.implementers(iface, cc.Method)
		if len(impls) > 0 && len(impls) <= 400 {
			for _, f := range impls {
				m.add(e.fnMods(f))
			}
			return m
		}
	}
	m.Top = true
	return m
}

// fnMods: transitive write set of an in-module function (fixed point over the call graph, memoised).
func (e *Engine) fnMods(f *ssa.Function) *ModSet {
	e.modMu.Lock()
	if m, ok := e.mods[f]; ok {
		e.modMu.Unlock()
		return m
	}
	m := newModSet()
	e.mods[f] = m // recursion guard: partial result
	e.modMu.Unlock()
	if f.Blocks == nil {
		m.Top = true
		return m
	}
	for _, b := range f.Blocks {
		for _, in := range b.Instrs {
			e.instrMods(m, in, f, nil)
		}
	}
	for _, an := range f.AnonFuncs {
		_ = an
	}
	return m
}

func (e *Engine) isModule(f *ssa.Function) bool {
	if f == nil {
		return false
	}
	p := f.Pkg
	if p == nil && f.Parent() != nil {
		p = f.Parent().Pkg
	}
	if p == nil {
		if f.Origin() != nil && f.Origin().Pkg != nil {
			p = f.Origin().Pkg
		} else {
			return false
		}
	}
	return strings.HasPrefix(p.Pkg.Path(), e.modPath)
}

func (e *Engine) isModuleType(t types.Type) bool {
	if n, ok := t.(*types.Named); ok && n.Obj().Pkg() != nil {
		return strings.HasPrefix(n.Obj().Pkg().Path(), e.modPath)
	}
	return false
}

// blockMods: write set of a set of blocks (a loop body).
func (e *Engine) blocksMods(f *ssa.Function, blocks map[*ssa.BasicBlock]bool) *ModSet {
	m := newModSet()
	for b := range blocks {
		for _, in := range b.Instrs {
			e.instrMods(m, in, f, blocks)
		}
	}
	return m
}
