package main

import (
	"fmt"
	"go/token"
	"go/types"
	"strconv"
	"strings"

	"golang.org/x/tools/go/ssa"
)

func (c *fnCtx) call(in ssa.Instruction, cc *ssa.CallCommon, rt types.Type) *Val {
	pos := in.Pos()
	if bi, ok := cc.Value.(*ssa.Builtin); ok {
		if c.ct != nil && len(c.ct.Asserts) > 0 {
			var bargs []*Val
			for _, a := range cc.Args {
				bargs = append(bargs, c.val(a))
			}
			c.anchoredAsserts(in, bi.Name(), cc, bargs)
		}
		return c.builtin(in, bi, cc, rt)
	}
	var args []*Val
	for _, a := range cc.Args {
		args = append(args, c.val(a))
	}
	if cc.IsInvoke() {
		c.anchoredAsserts(in, cc.Method.Name(), cc, args)
		return c.invoke(in, cc, args, rt)
	}
	if sc := cc.StaticCallee(); sc != nil {
		c.anchoredAsserts(in, sc.Name(), cc, args)
	}
	callee := cc.StaticCallee()
	var closure *ssa.MakeClosure
	if mc, ok := cc.Value.(*ssa.MakeClosure); ok {
		closure = mc
	}
	if callee == nil {
		if mc := resolveClosure(cc.Value, 0); mc != nil {
			closure = mc
			callee = mc.Fn.(*ssa.Function)
		}
	}
	if callee == nil {
		// dynamic call through a function value
		c.val(cc.Value)
		c.note("dynamic call at " + c.eng.prog.Fset.Position(pos).String())
		c.havocAll()
		return c.result(rt, "dyn")
	}
	return c.callStatic(in, callee, closure, cc, args, rt)
}

// callStatic: call of a statically known function (also used for devirtualised interface calls).
func (c *fnCtx) callStatic(in ssa.Instruction, callee *ssa.Function, closure *ssa.MakeClosure, cc *ssa.CallCommon, args []*Val, rt types.Type) *Val {
	pos := in.Pos()
	_ = pos
	if callee == c.f && c.inlineOf == nil && !c.mute {
		c.recursionObl(in, args)
	}
	if c.eng.isModule(callee) && callee.Blocks != nil {
		// remembered for counterexample lifting: arguments, reach condition and heap at the call
		r := c.root()
		r.callSites = append(r.callSites, &callSite{callee: callee, reach: c.reach[c.curB], args: args, st: c.st.clone()})
	}
	name := callee.String()
	if !(strings.HasSuffix(name, "ndian).PutUint16") || strings.HasSuffix(name, "ndian).PutUint32") || strings.HasSuffix(name, "ndian).PutUint64") || name == "io.ReadFull") {
		if !(c.eng.isModule(callee) && callee.Blocks != nil && c.eng.contractOf(callee) == nil && c.canInline(callee)) {
			c.callFrame(in, callee, cc, args)
		}
	}
	// 1. written contract
	if ct := c.eng.contractOf(callee); ct != nil && !ct.Inline {
		return c.applyContract(in, callee, ct, cc, args, rt)
	}
	if ct := c.eng.externCts[name]; ct != nil {
		return c.applyContract(in, callee, ct, cc, args, rt)
	}
	// 2. modelled external functions
	if r, ok := c.external(in, name, callee, cc, args, rt); ok {
		return r
	}
	// 3. module callee: inline when small and loop free
	if c.eng.isModule(callee) && callee.Blocks != nil {
		if c.canInline(callee) {
			return c.inline(in, callee, closure, args, rt)
		}
		// handing the packet builder to another decoder-kind function is a tail event of the protocol
		for _, a := range cc.Args {
			if strings.HasSuffix(a.Type().String(), "gopacket.PacketBuilder") && pbStructural(c.eng.pbUses(callee, 0)) {
				c.pbEvent(in, "NextDecoder", cc, args)
				break
			}
		}
		c.passedPtrEffects(cc, args)
		c.havocSet(c.eng.fnMods(callee))
		r := c.result(rt, "call")
		c.eng.noteDerived(callee)
		c.assumeAutoPost(callee, args, r, rt)
		return r
	}
	// 4. other external
	c.passedPtrEffects(cc, args)
	c.havocSet(c.eng.externalMods(callee, cc))
	r := c.result(rt, "ext")
	c.eng.noteExternal(name)
	c.externalFacts(name, r, args, cc)
	return r
}

func (c *fnCtx) result(rt types.Type, hint string) *Val {
	if rt == nil {
		return nil
	}
	return c.freshVal(rt, hint)
}

// passedPtrEffects: a pointer to one of our scalar cells (field / element) handed to a callee may be
// written through: havoc that cell afterwards.
func (c *fnCtx) passedPtrEffects(cc *ssa.CallCommon, args []*Val) {
	for i, a := range args {
		if a.K != KPtr || a.P == nil || a.P.Op {
			continue
		}
		el := cc.Args[i].Type().Underlying().(*types.Pointer).Elem()
		c.scalarStore(el, a.P, c.freshVal(el, "pp"))
	}
}

// ---- builtins ---------------------------------------------------------------------------------

func (c *fnCtx) builtin(in ssa.Instruction, bi *ssa.Builtin, cc *ssa.CallCommon, rt types.Type) *Val {
	pos := in.Pos()
	switch bi.Name() {
	case "len":
		a := c.val(cc.Args[0])
		switch a.K {
		case KSlice:
			return iv(a.T[2])
		case KStr:
			return iv(a.T[1])
		}
		if p, ok := cc.Args[0].Type().Underlying().(*types.Pointer); ok {
			if at, ok := p.Elem().Underlying().(*types.Array); ok {
				return iv(fmt.Sprint(at.Len()))
			}
		}
		if at, ok := cc.Args[0].Type().Underlying().(*types.Array); ok {
			return iv(fmt.Sprint(at.Len()))
		}
		r := c.freshVal(rt, "len")
		c.em.assert("(<= 0 " + r.T[0] + ")")
		return r
	case "cap":
		a := c.val(cc.Args[0])
		if a.K == KSlice {
			return iv(a.T[3])
		}
		r := c.freshVal(rt, "cap")
		c.em.assert("(<= 0 " + r.T[0] + ")")
		return r
	case "append":
		return c.appendBuiltin(in, cc, rt)
	case "copy":
		return c.copyBuiltin(in, cc, rt)
	case "min", "max":
		if kindOf(rt) == KInt {
			op := "<"
			if bi.Name() == "max" {
				op = ">"
			}
			cur := c.val(cc.Args[0]).T[0]
			for _, a := range cc.Args[1:] {
				b := c.val(a).T[0]
				cur = c.em.define("mm", "Int", fmt.Sprintf("(ite (%s %s %s) %s %s)", op, cur, b, cur, b))
			}
			return iv(cur)
		}
	case "recover":
		if c.root().inDefer {
			return c.zeroVal(rt)
		}
		c.hasRecov = true
		c.em.regKey("ghost:recovered", "Int", false)
		c.upd("ghost:recovered", "", "Int", false, "", "0", "1")
		return c.freshVal(rt, "rec")
	case "delete", "print", "println":
		return nil
	case "clear":
		if sl, ok := cc.Args[0].Type().Underlying().(*types.Slice); ok {
			c.havocElemType(sl.Elem())
		}
		return nil
	case "panic":
		c.addObl("panic", pos, "false", "")
		return nil
	}
	if rt == nil {
		return nil
	}
	return c.freshVal(rt, "bi")
}

// contentsKeys returns the two-level heap keys holding elements of type et (scalar element types only).
func (c *fnCtx) contentsKeys(et types.Type) ([]struct{ key, sort string }, bool) {
	switch kindOf(et) {
	case KStruct, KArr:
		return nil, false
	}
	var r []struct{ key, sort string }
	for _, cp := range scalarComponents(et) {
		k := elemKey(et) + cp.suf
		c.em.regKey(k, cp.sort, true)
		r = append(r, struct{ key, sort string }{k, cp.sort})
	}
	return r, true
}

func (c *fnCtx) appendBuiltin(in ssa.Instruction, cc *ssa.CallCommon, rt types.Type) *Val {
	s := c.val(cc.Args[0])
	t := c.val(cc.Args[1])
	st, _ := rt.Underlying().(*types.Slice)
	if s.K != KSlice || st == nil {
		c.havocAll()
		return c.freshVal(rt, "app")
	}
	var tlen, tarr, toff string
	switch t.K {
	case KSlice:
		tarr, toff, tlen = t.T[0], t.T[1], t.T[2]
	case KStr:
		tlen = t.T[1]
	default:
		tlen = "0"
	}
	nlen := c.em.define("alen", "Int", "(+ "+s.T[2]+" "+tlen+")")
	inpl := c.em.define("inplace", "Bool", "(<= "+nlen+" "+s.T[3]+")")
	c.appendFrame(in, cc, s, inpl, tlen)
	fresh := c.newRef("aarr")
	c.em.assert(fmt.Sprintf("(=> %s (= (atype %s) %d))", c.reach[c.curB], fresh, c.eng.elemTypeID(st.Elem())))
	ncap := c.em.fresh("acap")
	c.em.decl(ncap, "Int")
	c.em.assert(fmt.Sprintf("(and (>= %s %s) (<= %s %s))", ncap, nlen, ncap, maxLen))
	r := &Val{K: KSlice, T: []string{
		c.em.define("rarr", "Int", "(ite "+inpl+" "+s.T[0]+" "+fresh+")"),
		c.em.define("roff", "Int", "(ite "+inpl+" "+s.T[1]+" 0)"),
		nlen,
		c.em.define("rcap", "Int", "(ite "+inpl+" "+s.T[3]+" "+ncap+")"),
	}}
	// nil stays nil only when nothing was appended to nil: append(nil) with tlen==0 returns s itself
	c.em.assert(fmt.Sprintf("(=> (= %s 0) (and (= %s %s) (= %s %s)))", tlen, r.T[0], s.T[0], r.T[3], s.T[3]))
	keys, ok := c.contentsKeys(st.Elem())
	if !ok {
		// struct elements: element objects are elem(arr,idx); single-element in-place append is a store
		if n, isC := c.constLen(cc.Args[1]); isC && n == 1 && t.K == KSlice && kindOf(st.Elem()) == KStruct {
			src := c.load(&Val{K: KPtr, T: []string{c.elemRef(tarr, toff)}}, st.Elem())
			// both outcomes write index len of the result array
			dst := &Val{K: KPtr, T: []string{c.elemRef(r.T[0], c.em.define("ai", "Int", "(+ "+r.T[1]+" "+s.T[2]+")"))}}
			c.store(dst, st.Elem(), src)
			return r
		}
		c.havocElemType(st.Elem())
		return r
	}
	for _, k := range keys {
		h := c.heapGet(k.key)
		var tsel string
		if t.K == KSlice {
			tsel = "(select (select " + h + " " + tarr + ") (+ " + toff + " (- k " + s.T[1] + " " + s.T[2] + ")))"
		}
		a2 := c.em.fresh("Aapp")
		c.em.decl(a2, "(Array Int "+k.sort+")")
		S := "(select " + h + " " + s.T[0] + ")"
		if n, isC := c.constLen(cc.Args[1]); isC && n == 1 && t.K == KSlice {
			// in place: single store; reallocation: prefix copy + one element
			tv := "(select (select " + h + " " + tarr + ") " + toff + ")"
			c.em.assert(fmt.Sprintf("(=> %s (= %s (store %s (+ %s %s) %s)))", inpl, a2, S, s.T[1], s.T[2], tv))
			c.em.assert(fmt.Sprintf("(=> (not %s) (and (= (select %s %s) %s) (forall ((k Int)) (! (=> (and (<= 0 k) (< k %s)) (= (select %s k) (select %s (+ %s k)))) :pattern ((select %s k))))))",
				inpl, a2, s.T[2], tv, s.T[2], a2, S, s.T[1], a2))
		} else {
			var srcIn, srcNew string
			if t.K == KSlice {
				srcIn = tsel
				srcNew = "(select (select " + h + " " + tarr + ") (+ " + toff + " (- k " + s.T[2] + ")))"
			} else {
				u := c.em.fresh("strbytes")
				c.em.decl(u, "(Array Int "+k.sort+")")
				if k.sort == "Int" {
					c.em.assert(fmt.Sprintf("(forall ((k Int)) (! (and (<= 0 (select %s k)) (<= (select %s k) 255)) :pattern ((select %s k))))", u, u, u))
				}
				srcIn = "(select " + u + " k)"
				srcNew = "(select " + u + " k)"
			}
			c.em.assert(fmt.Sprintf("(=> %s (forall ((k Int)) (! (= (select %s k) (ite (and (<= (+ %s %s) k) (< k (+ %s %s))) %s (select %s k))) :pattern ((select %s k)))))",
				inpl, a2, s.T[1], s.T[2], s.T[1], nlen, srcIn, S, a2))
			c.em.assert(fmt.Sprintf("(=> (not %s) (forall ((k Int)) (! (=> (and (<= 0 k) (< k %s)) (= (select %s k) (ite (< k %s) (select %s (+ %s k)) %s))) :pattern ((select %s k)))))",
				inpl, nlen, a2, s.T[2], S, s.T[1], srcNew, a2))
		}
		c.heapSet(k.key, c.em.define("Happ", c.em.keySort(k.key), "(store "+h+" "+r.T[0]+" "+a2+")"))
	}
	c.initNote(r, in)
	return r
}

// copyStructPrefix: after a reallocating append of struct elements the first len elements of the new array
// equal the old ones, field by field (quantified over the element index).
func (c *fnCtx) copyStructPrefix(et types.Type, s, r *Val, inpl string) {
	st := et.Underlying().(*types.Struct)
	for i := 0; i < st.NumFields(); i++ {
		f := st.Field(i)
		switch kindOf(f.Type()) {
		case KStruct, KArr:
			continue
		}
		for _, cp := range scalarComponents(f.Type()) {
			k := fieldKey(et, f) + cp.suf
			c.em.regKey(k, cp.sort, false)
			h := c.heapGet(k)
			c.em.assert(fmt.Sprintf("(=> (not %s) (forall ((k Int)) (! (=> (and (<= 0 k) (< k %s)) (= (select %s (elem %s k)) (select %s (elem %s (+ %s k))))) :pattern ((elem %s k)))))",
				inpl, s.T[2], h, r.T[0], h, s.T[0], s.T[1], r.T[0]))
		}
	}
}

func (c *fnCtx) constLen(v ssa.Value) (int64, bool) {
	// variadic append packs its operands into new [n]T array sliced whole
	if sl, ok := v.(*ssa.Slice); ok && sl.Low == nil && sl.High == nil {
		if p, ok := sl.X.Type().Underlying().(*types.Pointer); ok {
			if at, ok := p.Elem().Underlying().(*types.Array); ok {
				return at.Len(), true
			}
		}
	}
	return 0, false
}

func (c *fnCtx) copyBuiltin(in ssa.Instruction, cc *ssa.CallCommon, rt types.Type) *Val {
	d := c.val(cc.Args[0])
	s := c.val(cc.Args[1])
	dt, _ := cc.Args[0].Type().Underlying().(*types.Slice)
	if d.K != KSlice || dt == nil {
		c.havocAll()
		return c.freshVal(rt, "cpy")
	}
	var slen string
	switch s.K {
	case KSlice:
		slen = s.T[2]
	case KStr:
		slen = s.T[1]
	default:
		slen = "0"
	}
	n := c.em.define("ncopy", "Int", fmt.Sprintf("(ite (< %s %s) %s %s)", d.T[2], slen, d.T[2], slen))
	c.copyFrame(in, cc, d, n)
	keys, ok := c.contentsKeys(dt.Elem())
	if !ok {
		c.havocElemType(dt.Elem())
		return iv(n)
	}
	for _, k := range keys {
		h := c.heapGet(k.key)
		a2 := c.em.fresh("Acpy")
		c.em.decl(a2, "(Array Int "+k.sort+")")
		D := "(select " + h + " " + d.T[0] + ")"
		var src string
		if s.K == KSlice {
			src = "(select (select " + h + " " + s.T[0] + ") (+ " + s.T[1] + " (- k " + d.T[1] + ")))"
		} else {
			u := c.em.fresh("strbytes")
			c.em.decl(u, "(Array Int "+k.sort+")")
			if k.sort == "Int" {
				c.em.assert(fmt.Sprintf("(forall ((k Int)) (! (and (<= 0 (select %s k)) (<= (select %s k) 255)) :pattern ((select %s k))))", u, u, u))
			}
			src = "(select " + u + " k)"
		}
		c.em.assert(fmt.Sprintf("(forall ((k Int)) (! (= (select %s k) (ite (and (<= %s k) (< k (+ %s %s))) %s (select %s k))) :pattern ((select %s k))))",
			a2, d.T[1], d.T[1], n, src, D, a2))
		c.heapSet(k.key, c.em.define("Hcpy", c.em.keySort(k.key), "(store "+h+" "+d.T[0]+" "+a2+")"))
	}
	c.initCopy(d, n)
	return iv(n)
}

// ---- inlining ---------------------------------------------------------------------------------

func (c *fnCtx) canInline(f *ssa.Function) bool {
	if c.depth >= 3 {
		return false
	}
	return c.eng.inlinable(f)
}

func (e *Engine) inlinable(f *ssa.Function) bool {
	e.inlMu.Lock()
	if v, ok := e.inl[f]; ok {
		e.inlMu.Unlock()
		return v
	}
	e.inl[f] = false
	e.inlMu.Unlock()
	ok := true
	n := 0
	if f.Blocks == nil || f.Recover != nil {
		ok = false
	}
	for _, b := range f.Blocks {
		if !ok {
			break
		}
		for _, s := range b.Succs {
			if s.Dominates(b) {
				ok = false
			}
		}
		for _, in := range b.Instrs {
			n++
			switch x := in.(type) {
			case *ssa.Defer, *ssa.Go, *ssa.Select, *ssa.Send, *ssa.RunDefers, *ssa.MakeClosure, *ssa.Range:
				ok = false
			case *ssa.Call:
				if cal := x.Call.StaticCallee(); cal != nil && e.isModule(cal) && cal != f {
					if e.contractOf(cal) == nil && !e.inlinable(cal) {
						// calls to non-inlinable module functions are fine (they are havocked), but keep it small
						n += 10
					}
				}
				if cal := x.Call.StaticCallee(); cal == f {
					ok = false
				}
			}
		}
	}
	if n > 120 {
		ok = false
	}
	e.inlMu.Lock()
	e.inl[f] = ok
	e.inlMu.Unlock()
	return ok
}

// resolveClosure finds the closure a function-typed value statically denotes: a MakeClosure, or a load of a
// captured / local variable that is assigned exactly once, with a MakeClosure.
func resolveClosure(v ssa.Value, depth int) *ssa.MakeClosure {
	if depth > 4 {
		return nil
	}
	switch x := v.(type) {
	case *ssa.MakeClosure:
		return x
	case *ssa.UnOp:
		if x.Op != token.MUL {
			return nil
		}
		switch a := x.X.(type) {
		case *ssa.Alloc:
			return closureInCell(a, depth)
		case *ssa.FreeVar:
			fn := a.Parent()
			par := fn.Parent()
			if par == nil {
				return nil
			}
			idx := -1
			for i, fv := range fn.FreeVars {
				if fv == a {
					idx = i
				}
			}
			// find the MakeClosure of fn in the parent
			for _, b := range par.Blocks {
				for _, in := range b.Instrs {
					if mc, ok := in.(*ssa.MakeClosure); ok && mc.Fn == ssa.Value(fn) && idx >= 0 && idx < len(mc.Bindings) {
						switch bnd := mc.Bindings[idx].(type) {
						case *ssa.Alloc:
							return closureInCell(bnd, depth)
						case *ssa.FreeVar:
							return resolveClosure(&ssa.UnOp{Op: token.MUL, X: bnd}, depth+1)
						}
					}
				}
			}
		}
	}
	return nil
}

func closureInCell(a *ssa.Alloc, depth int) *ssa.MakeClosure {
	refs := a.Referrers()
	if refs == nil {
		return nil
	}
	var found *ssa.MakeClosure
	for _, r := range *refs {
		switch x := r.(type) {
		case *ssa.Store:
			if x.Addr != ssa.Value(a) {
				return nil // the cell's address escapes into memory
			}
			mc, ok := x.Val.(*ssa.MakeClosure)
			if !ok || found != nil {
				return nil
			}
			found = mc
		case *ssa.UnOp, *ssa.MakeClosure, *ssa.DebugRef:
		default:
			return nil
		}
	}
	return found
}

// bindingVal evaluates a closure binding in the context (possibly an outer inlining context) that owns it.
func (c *fnCtx) bindingVal(b ssa.Value) *Val {
	var owner *ssa.Function
	switch x := b.(type) {
	case ssa.Instruction:
		owner = x.Parent()
	case *ssa.Parameter:
		owner = x.Parent()
	case *ssa.FreeVar:
		owner = x.Parent()
	}
	for ctx := c; ctx != nil; ctx = ctx.inlineOf {
		if ctx.f == owner {
			return ctx.val(b)
		}
	}
	return c.freshVal(b.Type(), "bind")
}

func (c *fnCtx) inline(in ssa.Instruction, callee *ssa.Function, mc *ssa.MakeClosure, args []*Val, rt types.Type) *Val {
	sub := &fnCtx{eng: c.eng, em: c.em, f: callee, vals: map[ssa.Value]*Val{}, st: c.st, entry: c.st.clone(), occ: map[string]int{}, mute: true, depth: c.depth + 1, dead: map[string]bool{}, inlineOf: c}
	sub.ct = nil
	for i, p := range callee.Params {
		if i < len(args) {
			sub.vals[p] = args[i]
		}
	}
	if mc != nil {
		sub.freeVars = map[*ssa.FreeVar]*Val{}
		for i, fv := range callee.FreeVars {
			if i < len(mc.Bindings) {
				sub.freeVars[fv] = c.bindingVal(mc.Bindings[i])
			}
		}
	}
	sub.reach = map[*ssa.BasicBlock]string{}
	sub.analyzeLoops()
	sub.reach[callee.Blocks[0]] = c.reach[c.curB]
	sub.run()
	c.eng.noteInlined(callee)
	// merge returns
	var conds []string
	var states []*State
	for _, r := range sub.rets {
		conds = append(conds, r.reach)
		states = append(states, r.st)
	}
	if len(sub.rets) == 0 {
		// callee never returns normally (always panics): the continuation is unreachable
		c.em.assert("(not " + c.reach[c.curB] + ")")
		return c.result(rt, "inl")
	}
	c.st = c.mergeStates(states, conds)
	// typestate events of the callee are replayed in the caller (PacketBuilder protocol)
	c.events = append(c.events, sub.events...)
	if rt == nil {
		return nil
	}
	if len(sub.rets) == 1 {
		return packResults(sub.rets[0].vals, rt)
	}
	res := c.freshVal(rt, "inl")
	for _, r := range sub.rets {
		rv := packResults(r.vals, rt)
		if e := eqVals(res, rv); e != "true" {
			c.em.assert("(=> " + r.reach + " " + e + ")")
		}
	}
	// keep pointer cell info when all returns agree
	return res
}

func packResults(vs []*Val, rt types.Type) *Val {
	if _, ok := rt.(*types.Tuple); ok {
		return &Val{K: KTuple, F: vs}
	}
	if len(vs) == 1 {
		return vs[0]
	}
	return &Val{K: KTuple, F: vs}
}

// ---- external models --------------------------------------------------------------------------

func (c *fnCtx) byteAt(s *Val, i int) string {
	k := elemKey(types.Typ[types.Uint8])
	c.em.regKey(k, "Int", true)
	h := c.heapGet(k)
	t := c.em.define("by", "Int", fmt.Sprintf("(select (select %s %s) (+ %s %d))", h, s.T[0], s.T[1], i))
	key := "byrange|" + t
	if !c.em.declared[key] {
		c.em.declared[key] = true
		c.em.assert(fmt.Sprintf("(and (<= 0 %s) (<= %s 255))", t, t))
	}
	return t
}

func (c *fnCtx) putByte(s *Val, i int, v string) {
	k := elemKey(types.Typ[types.Uint8])
	c.em.regKey(k, "Int", true)
	c.upd(k, "", "Int", true, s.T[0], fmt.Sprintf("(+ %s %d)", s.T[1], i), v)
}

func isByteSlice(t types.Type) bool {
	sl, ok := t.Underlying().(*types.Slice)
	if !ok {
		return false
	}
	b, ok := sl.Elem().Underlying().(*types.Basic)
	return ok && b.Kind() == types.Uint8
}

func (c *fnCtx) external(in ssa.Instruction, name string, callee *ssa.Function, cc *ssa.CallCommon, args []*Val, rt types.Type) (*Val, bool) {
	pos := in.Pos()
	endian := func(suffix string) (big bool, ok bool) {
		if strings.HasSuffix(name, "(encoding/binary.bigEndian)."+suffix) {
			return true, true
		}
		if strings.HasSuffix(name, "(encoding/binary.littleEndian)."+suffix) {
			return false, true
		}
		return false, false
	}
	for _, w := range []int{2, 4, 8} {
		if big, ok := endian(fmt.Sprintf("Uint%d", w*8)); ok && len(args) == 2 && args[1].K == KSlice {
			s := args[1]
			c.addObl("pre", pos, fmt.Sprintf("(>= %s %d)", s.T[2], w), "")
			var parts []string
			for i := 0; i < w; i++ {
				sh := i
				if big {
					sh = w - 1 - i
				}
				b := c.byteAt(s, i)
				if sh == 0 {
					parts = append(parts, b)
				} else {
					parts = append(parts, "(* "+pow2(int64(8*sh))+" "+b+")")
				}
			}
			return iv(c.em.define("u", "Int", "(+ "+strings.Join(parts, " ")+")")), true
		}
		if big, ok := endian(fmt.Sprintf("PutUint%d", w*8)); ok && len(args) == 3 && args[1].K == KSlice {
			s := args[1]
			c.addObl("pre", pos, fmt.Sprintf("(>= %s %d)", s.T[2], w), "")
			c.writeFrame(in, s, fmt.Sprint(w))
			v := args[2].T[0]
			for i := 0; i < w; i++ {
				sh := i
				if big {
					sh = w - 1 - i
				}
				bt := "(mod (div " + v + " " + pow2(int64(8*sh)) + ") 256)"
				c.putByte(s, i, c.em.define("pb", "Int", bt))
			}
			c.initRange(s, "0", fmt.Sprint(w))
			return nil, true
		}
	}
	switch {
	case name == "errors.New" || name == "fmt.Errorf":
		r := c.freshVal(rt, "err")
		c.em.assert("(not (= " + r.T[0] + " 0))")
		return r, true
	case name == "bytes.Equal" && len(args) == 2:
		r := c.freshVal(rt, "beq")
		a, b := args[0], args[1]
		c.em.assert(fmt.Sprintf("(=> %s (= %s %s))", r.T[0], a.T[2], b.T[2]))
		c.em.assert(fmt.Sprintf("(=> (and (= %s 0) (= %s 0)) %s)", a.T[2], b.T[2], r.T[0]))
		return r, true
	case name == "io.ReadFull" && len(args) == 2:
		// ensures: err == nil => n == len(buf) ; n <= len(buf) ; contents of buf arbitrary afterwards
		c.readInto(in, args[1])
		r := c.freshVal(rt, "rf")
		n, e := r.F[0].T[0], r.F[1].T[0]
		c.em.assert(fmt.Sprintf("(and (<= 0 %s) (<= %s %s) (=> (= %s 0) (= %s %s)) (=> (< %s %s) (not (= %s 0))))", n, n, args[1].T[2], e, n, args[1].T[2], n, args[1].T[2], e))
		c.ioEvent("ReadFull", args[1].T[2], n, e)
		return r, true
	}
	return nil, false
}

// readInto: an external reader fills the buffer with arbitrary bytes.
func (c *fnCtx) readInto(in ssa.Instruction, buf *Val) {
	c.writeFrame(in, buf, buf.T[2])
	k := elemKey(types.Typ[types.Uint8])
	c.em.regKey(k, "Int", true)
	h := c.heapGet(k)
	a2 := c.em.fresh("Aread")
	c.em.decl(a2, "(Array Int Int)")
	c.em.assert(fmt.Sprintf("(forall ((k Int)) (! (and (<= 0 (select %s k)) (<= (select %s k) 255) (=> (or (< k %s) (>= k (+ %s %s))) (= (select %s k) (select (select %s %s) k)))) :pattern ((select %s k))))",
		a2, a2, buf.T[1], buf.T[1], buf.T[2], a2, h, buf.T[0], a2))
	c.heapSet(k, c.em.define("Hrd", c.em.keySort(k), "(store "+h+" "+buf.T[0]+" "+a2+")"))
	c.eng.noteRead(c, buf, a2)
}

func (c *fnCtx) ioEvent(kind, want, got, err string) {}

// externalFacts: light-weight facts about results of unmodelled external functions.
func (c *fnCtx) externalFacts(name string, r *Val, args []*Val, cc *ssa.CallCommon) {
	if r == nil {
		return
	}
	switch {
	case strings.HasPrefix(name, "fmt.Sprintf"), strings.HasPrefix(name, "fmt.Sprint"):
	case name == "(net.IP).To4" || name == "(net.IP).To16":
		// result is nil or has length 4 / 16
		n := "4"
		if strings.HasSuffix(name, "To16") {
			n = "16"
		}
		c.em.assert(fmt.Sprintf("(or (= %s 0) (= %s %s))", r.T[0], r.T[2], n))
		c.em.assert(fmt.Sprintf("(=> (= %s 0) (= %s 0))", r.T[0], r.T[2]))
	case name == "time.Now" || strings.HasPrefix(name, "time."):
	}
}

// ---- interface method calls -------------------------------------------------------------------

func (c *fnCtx) invoke(in ssa.Instruction, cc *ssa.CallCommon, args []*Val, rt types.Type) *Val {
	recv := c.val(cc.Value)
	name := cc.Method.Name()
	rtyp := cc.Value.Type().String()
	pos := in.Pos()
	if recv.K == KIface {
		if !c.ifaceNonNil(cc.Value) {
			c.addObl("nil", pos, "(not (= "+recv.T[0]+" 0))", "")
		}
	}
	// devirtualisation: the dynamic type is a known constant (an interface made from a concrete value earlier
	// on this path, typically after inlining a helper that takes the interface)
	if recv.K == KIface {
		if id, err := strconv.Atoi(recv.T[0]); err == nil && id > 0 {
			c.eng.idMu.Lock()
			dt := c.eng.typeByID[id]
			c.eng.idMu.Unlock()
			if dt != nil {
				if sel := c.eng.prog.MethodSets.MethodSet(dt).Lookup(cc.Method.Pkg(), cc.Method.Name()); sel != nil {
					if fn := c.eng.prog.MethodValue(sel); fn != nil && fn.Blocks != nil && c.eng.isModule(fn) && len(fn.Params) == len(args)+1 {
						var rv *Val
						switch kindOf(dt) {
						case KPtr:
							rv = &Val{K: KPtr, T: []string{recv.T[1]}}
						}
						if rv != nil {
							cc2 := &ssa.CallCommon{Value: fn, Args: append([]ssa.Value{cc.Value}, cc.Args...)}
							return c.callStatic(in, fn, nil, cc2, append([]*Val{rv}, args...), rt)
						}
					}
				}
			}
		}
	}
	// interface contracts
	if ict := c.eng.ifaceContract(cc); ict != nil {
		return c.applyIfaceContract(in, ict, cc, recv, args, rt)
	}
	switch {
	case strings.HasSuffix(rtyp, "gopacket.SerializeBuffer") && (name == "PrependBytes" || name == "AppendBytes"):
		// Interface contract of SerializeBuffer (C18's contracts lifted to the interface), over the abstract view
		// (array, offset, length) kept in ghost state per buffer: the call yields a window of exactly n bytes with
		// unspecified contents on a new array whose other bytes are the old view (prepend: after the window,
		// append: before it). Modelling every call as a reallocation ignores aliasing of slices obtained earlier
		// from Bytes() with the new window; code that writes through such a slice afterwards is not covered.
		n := args[0].T[0]
		c.addObl("pre", pos, "(>= "+n+" 0)", "")
		oa, oo, ol := c.sbView(recv.T[1])
		fresh := c.newRef("sbuf")
		r := c.freshVal(rt, "pb")
		sl, er := r.F[0], r.F[1]
		ok := "(= " + er.T[0] + " 0)"
		winOff, oldAt := "0", n // prepend: window first, old view follows at n
		if name == "AppendBytes" {
			winOff, oldAt = ol, "0"
		}
		c.em.assert(fmt.Sprintf("(=> %s (and (= %s %s) (= %s %s) (= %s %s) (= %s %s)))", ok, sl.T[2], n, sl.T[3], n, sl.T[0], fresh, sl.T[1], winOff))
		k := elemKey(types.Typ[types.Uint8])
		c.em.regKey(k, "Int", true)
		h := c.heapGet(k)
		a2 := c.em.fresh("Asb")
		c.em.decl(a2, "(Array Int Int)")
		c.em.assert(fmt.Sprintf("(forall ((k Int)) (! (and (<= 0 (select %s k)) (<= (select %s k) 255) (=> (and (<= %s k) (< k (+ %s %s))) (= (select %s k) (select (select %s %s) (+ %s (- k %s)))))) :pattern ((select %s k))))",
			a2, a2, oldAt, oldAt, ol, a2, h, oa, oo, oldAt, a2))
		c.heapSet(k, c.em.define("Hsb", c.em.keySort(k), "(store "+h+" "+fresh+" "+a2+")"))
		c.em.assert(fmt.Sprintf("(=> %s (= (atype %s) %d))", c.reach[c.curB], fresh, c.eng.elemTypeID(types.Typ[types.Uint8])))
		c.sbSet(recv.T[1], ok, fresh, "0", "(+ "+ol+" "+n+")")
		c.sbEvent(name, n, r)
		return r
	case strings.HasSuffix(rtyp, "gopacket.SerializeBuffer") && name == "Bytes":
		oa, oo, ol := c.sbView(recv.T[1])
		cp := c.em.fresh("sbcap")
		c.em.decl(cp, "Int")
		c.assertHere(fmt.Sprintf("(and (>= %s %s) (<= (+ %s %s) %s))", cp, ol, oo, cp, maxLen))
		r := &Val{K: KSlice, T: []string{oa, oo, ol, cp}}
		c.sbEvent(name, "", r)
		return r
	case strings.HasSuffix(rtyp, "gopacket.SerializeBuffer") && name == "Clear":
		oa, oo, _ := c.sbView(recv.T[1])
		r := c.freshVal(rt, "clr")
		c.sbSet(recv.T[1], "(= "+r.T[0]+" 0)", oa, oo, "0")
		return r
	case strings.HasSuffix(rtyp, "gopacket.PacketBuilder"), strings.HasSuffix(rtyp, "gopacket.DecodeFeedback"):
		c.pbEvent(in, name, cc, args)
		c.havocSet(c.eng.invokeMods(cc))
		r := c.result(rt, "pbr")
		return r
	case name == "Error" && rt != nil && kindOf(rt) == KStr:
		return c.freshVal(rt, "errs")
	}
	c.passedPtrEffects(cc, args)
	c.havocSet(c.eng.invokeMods(cc))
	c.eng.noteInvoke(rtyp + "." + name)
	r := c.result(rt, "inv")
	if r != nil && name == "LayerPayload" || name == "LayerContents" {
		_ = r
	}
	return r
}

func (c *fnCtx) havocByteArray(arr string) {
	k := elemKey(types.Typ[types.Uint8])
	c.em.regKey(k, "Int", true)
	h := c.heapGet(k)
	a2 := c.em.fresh("Anew")
	c.em.decl(a2, "(Array Int Int)")
	c.em.assert(fmt.Sprintf("(forall ((k Int)) (! (and (<= 0 (select %s k)) (<= (select %s k) 255)) :pattern ((select %s k))))", a2, a2, a2))
	c.heapSet(k, c.em.define("Hnw", c.em.keySort(k), "(store "+h+" "+arr+" "+a2+")"))
}

// sbView: the abstract view (array, offset, length) of the serialize buffer object ref.
func (c *fnCtx) sbView(ref string) (arr, off, ln string) {
	get := func(key string) string {
		c.em.regKey(key, "Int", false)
		return c.em.define("sbv", "Int", "(select "+c.heapGet(key)+" "+ref+")")
	}
	arr, off, ln = get("ghost:sbArr"), get("ghost:sbOff"), get("ghost:sbLen")
	c.assertHere(fmt.Sprintf("(and (<= 0 %s) (<= 0 %s) (<= (+ %s %s) %s) (=> (not (= %s 0)) (= (atype %s) %d)))", off, ln, off, ln, maxLen, arr, arr, c.eng.elemTypeID(types.Typ[types.Uint8])))
	return
}

// sbSet updates the view of buffer ref when cond holds (the call succeeded).
func (c *fnCtx) sbSet(ref, cond, arr, off, ln string) {
	for _, kv := range [][2]string{{"ghost:sbArr", arr}, {"ghost:sbOff", off}, {"ghost:sbLen", ln}} {
		c.em.regKey(kv[0], "Int", false)
		h := c.heapGet(kv[0])
		c.heapSet(kv[0], c.em.define("Hsbv", "(Array Int Int)", fmt.Sprintf("(store %s %s (ite %s %s (select %s %s)))", h, ref, cond, kv[1], h, ref)))
	}
}

// ifaceNonNil: interface-typed parameters and receivers are assumed non-nil (listed assumption); results of
// MakeInterface are non-nil by construction.
func (c *fnCtx) ifaceNonNil(v ssa.Value) bool {
	switch v.(type) {
	case *ssa.Parameter, *ssa.MakeInterface, *ssa.FreeVar:
		return true
	}
	return false
}

// ---- hooks filled in by property-specific layers ------------------------------------------------

func (c *fnCtx) panicAllowed(in *ssa.Panic) bool {
	return false
}

var _ = token.NoPos

// recursionObl: a direct recursive call must decrease the function's measure (contract clause "decreases e");
// without a measure the recursion is not shown to be bounded.
func (c *fnCtx) recursionObl(in ssa.Instruction, args []*Val) {
	if !c.eng.wantClass("dec") {
		return
	}
	if c.ct == nil || c.ct.Decreases == nil {
		c.addObl("dec", in.Pos(), "false", "recursion: "+c.eng.srcText(in.Pos())+" (no decreases measure)")
		return
	}
	cur := c.contractEnv(c.f, c.params, nil, c.entry, c.entry)
	nxt := c.contractEnv(c.f, args, nil, c.st, c.st)
	var m0, m1 string
	func() {
		defer func() {
			if r := recover(); r != nil {
				if ee, ok := r.(evalErr); ok {
					c.eng.engineError(fmt.Errorf("%s decreases: %s", c.fnName(), ee.msg))
					return
				}
				panic(r)
			}
		}()
		saved := c.st
		c.st = c.entry
		m0 = cur.evalInt(c.ct.Decreases)
		c.st = saved
		m1 = nxt.evalInt(c.ct.Decreases)
	}()
	if m0 == "" || m1 == "" {
		return
	}
	// named by the measure only (the n-th recursive call), so that an edit of the call's arguments does not rename it
	c.addObl("dec", in.Pos(), fmt.Sprintf("(and (>= %s 0) (< %s %s))", m0, m1, m0), "recursion: "+c.ct.Decreases.Src+" decreases at each recursive call")
}
