package main

import (
	"fmt"
	"go/types"
	"sort"
	"strings"
)

// State is the symbolic heap at a program point: heap key -> current SMT term.
// Keys not present resolve lazily to the epoch default "H<epoch>_<key>".
type State struct {
	epoch int
	m     map[string]string
}

func (s *State) clone() *State {
	n := &State{epoch: s.epoch, m: make(map[string]string, len(s.m))}
	for k, v := range s.m {
		n.m[k] = v
	}
	return n
}

// Shared emitter state for one verification script (a function and everything inlined into it).
type Emit struct {
	out        strings.Builder
	n          int
	declared   map[string]bool
	sorts      map[string]string // heap key -> element sort ("Int"/"Bool")
	twoLevel   map[string]bool
	epochs     int
	subFns     map[string]bool
	wm0        string
	inlineMode int // >0: evaluating under a quantifier: no global definitions may be emitted
}

func newEmit() *Emit {
	return &Emit{declared: map[string]bool{}, sorts: map[string]string{}, twoLevel: map[string]bool{}, subFns: map[string]bool{}}
}

func (e *Emit) fresh(p string) string { e.n++; return fmt.Sprintf("%s_%d", sanitize(p), e.n) }
func (e *Emit) decl(name, sort string) {
	fmt.Fprintf(&e.out, "(declare-const %s %s)\n", name, sort)
}
func (e *Emit) assert(s string) { fmt.Fprintf(&e.out, "(assert %s)\n", s) }
func (e *Emit) define(hint, sort, body string) string {
	// keep short atoms as they are
	if !strings.ContainsAny(body, " (") || e.inlineMode > 0 {
		return body
	}
	n := e.fresh(hint)
	fmt.Fprintf(&e.out, "(define-fun %s () %s %s)\n", n, sort, body)
	return n
}
func (e *Emit) newEpoch() int { e.epochs++; return e.epochs }

func (e *Emit) keySort(key string) string {
	if key == "$wm" {
		return "Int"
	}
	s := e.sorts[key]
	if s == "" {
		s = "Int"
	}
	if e.twoLevel[key] {
		return "(Array Int (Array Int " + s + "))"
	}
	return "(Array Int " + s + ")"
}

func smtKey(key string) string {
	return strings.Map(func(r rune) rune {
		if r >= 'a' && r <= 'z' || r >= 'A' && r <= 'Z' || r >= '0' && r <= '9' || r == '_' || r == '.' || r == '#' || r == '$' || r == '!' {
			if r == '#' {
				return '!'
			}
			return r
		}
		return '_'
	}, key)
}

// regKey registers sort information for a key.
func (e *Emit) regKey(key, sort string, two bool) {
	if _, ok := e.sorts[key]; !ok {
		e.sorts[key] = sort
		e.twoLevel[key] = two
	}
}

func (c *fnCtx) heapGet(key string) string {
	if t, ok := c.st.m[key]; ok {
		return t
	}
	name := fmt.Sprintf("H%d_%s", c.st.epoch, smtKey(key))
	if !c.em.declared[name] {
		c.em.declared[name] = true
		c.em.decl(name, c.em.keySort(key))
		if key == "$wm" {
			c.em.assert("(>= " + name + " 0)")
		}
	}
	c.st.m[key] = name
	return name
}

func (c *fnCtx) heapSet(key, term string) {
	c.st.m[key] = term
}

func (c *fnCtx) havocKey(key string) {
	if key == "$wm" {
		old := c.heapGet(key)
		n := c.em.fresh("wm")
		c.em.decl(n, "Int")
		c.em.assert("(>= " + n + " " + old + ")")
		c.st.m[key] = n
		return
	}
	n := c.em.fresh("Hh_" + smtKey(key))
	c.em.decl(n, c.em.keySort(key))
	c.st.m[key] = n
}

// havocAll forgets everything about the heap (keeps the watermark monotone).
func (c *fnCtx) havocAll() {
	wm := c.heapGet("$wm")
	old := c.st
	c.st = &State{epoch: c.em.newEpoch(), m: map[string]string{}}
	for k, v := range old.m {
		if strings.HasPrefix(k, "ghost:") {
			c.st.m[k] = v // ghost state changes only through its own events
		}
	}
	n := c.em.fresh("wm")
	c.em.decl(n, "Int")
	c.em.assert("(>= " + n + " " + wm + ")")
	c.st.m["$wm"] = n
}

// havocKeys havocs a computed write set.
func (c *fnCtx) havocSet(ms *ModSet) {
	if ms == nil {
		return
	}
	if ms.Top {
		c.havocAll()
		return
	}
	keys := make([]string, 0, len(ms.Keys))
	for k := range ms.Keys {
		keys = append(keys, k)
	}
	sort.Strings(keys)
	for _, k := range keys {
		c.registerKeyFromName(k)
		c.havocKey(k)
	}
	c.havocInitFor(ms)
	// keys written only on objects allocated inside the region: objects that existed before keep their contents
	var fkeys []string
	for k := range ms.Fresh {
		if !ms.Keys[k] {
			fkeys = append(fkeys, k)
		}
	}
	sort.Strings(fkeys)
	if len(fkeys) > 0 {
		wm := c.heapGet("$wm")
		for _, k := range fkeys {
			c.registerKeyFromName(k)
			old := c.heapGet(k)
			c.havocKey(k)
			nw := c.heapGet(k)
			c.em.assert(fmt.Sprintf("(forall ((r Int)) (! (=> (<= (owner r) %s) (= (select %s r) (select %s r))) :pattern ((select %s r))))", wm, nw, old, nw))
		}
	}
	if ms.Alloc || len(fkeys) > 0 {
		c.havocKey("$wm")
	}
}

// havocInitFor: a region (loop body, callee) that stores bytes may also have marked bytes as written (C07 init
// ghost). The marks are forgotten, except that a region which obtains no new window from a serialize buffer only
// ever adds marks; what it is known to have written comes back through inited(...) in invariants and contracts.
func (c *fnCtx) havocInitFor(ms *ModSet) {
	if !c.initOn() || ms == nil || !ms.Keys[elemKey(types.Typ[types.Uint8])] {
		return
	}
	c.em.regKey(initKey, "Bool", true)
	old := c.heapGet(initKey)
	wm := c.heapGet("$wm")
	c.havocKey(initKey)
	nw := c.heapGet(initKey)
	for k := range ms.Keys {
		if strings.HasPrefix(k, "ghost:sb") {
			// the region obtains windows of its own: they live on arrays allocated inside it (every window is a
			// new array in the buffer model), so the marks on arrays that existed before still only grow
			c.em.assert(fmt.Sprintf("(forall ((a Int) (k Int)) (! (=> (and (<= (owner a) %s) (select (select %s a) k)) (select (select %s a) k)) :pattern ((select (select %s a) k))))", wm, old, nw, nw))
			return
		}
	}
	c.em.assert(fmt.Sprintf("(forall ((a Int) (k Int)) (! (=> (select (select %s a) k) (select (select %s a) k)) :pattern ((select (select %s a) k))))", old, nw, nw))
}

// registerKeyFromName makes sure sort info exists for a key named by the mod-set analysis.
func (c *fnCtx) registerKeyFromName(k string) {
	if _, ok := c.em.sorts[k]; ok {
		return
	}
	info, ok := c.eng.keyInfo[k]
	if ok {
		c.em.regKey(k, info.sort, info.two)
		return
	}
	c.em.regKey(k, "Int", strings.HasPrefix(k, "elem:"))
}

// mergeStates joins predecessor heap states under their edge conditions.
func (c *fnCtx) mergeStates(states []*State, conds []string) *State {
	if len(states) == 0 {
		return &State{epoch: c.em.newEpoch(), m: map[string]string{}}
	}
	if len(states) == 1 {
		return states[0].clone()
	}
	sameEpoch := true
	for _, s := range states[1:] {
		if s.epoch != states[0].epoch {
			sameEpoch = false
		}
	}
	res := &State{m: map[string]string{}}
	if sameEpoch {
		res.epoch = states[0].epoch
	} else {
		res.epoch = c.em.newEpoch()
	}
	keys := map[string]bool{}
	for _, s := range states {
		for k := range s.m {
			keys[k] = true
		}
	}
	ks := make([]string, 0, len(keys))
	for k := range keys {
		ks = append(ks, k)
	}
	sort.Strings(ks)
	for _, k := range ks {
		var terms []string
		same := true
		for _, s := range states {
			saved := c.st
			c.st = s
			t := c.heapGet(k)
			c.st = saved
			terms = append(terms, t)
			if t != terms[0] {
				same = false
			}
		}
		if same {
			res.m[k] = terms[0]
			continue
		}
		n := c.em.fresh("Hm_" + smtKey(k))
		c.em.decl(n, c.em.keySort(k))
		for i, t := range terms {
			c.em.assert(fmt.Sprintf("(=> %s (= %s %s))", conds[i], n, t))
		}
		res.m[k] = n
	}
	return res
}

// ---- type directed load / store -------------------------------------------------------------

type keyInfo struct {
	sort string
	two  bool
}

// components of a scalar type stored under base key k
func scalarComponents(t types.Type) []struct{ suf, sort string } {
	type cs = struct{ suf, sort string }
	switch kindOf(t) {
	case KBool:
		return []cs{{"", "Bool"}}
	case KStr:
		return []cs{{"#id", "Int"}, {"#len", "Int"}}
	case KSlice:
		return []cs{{"#arr", "Int"}, {"#off", "Int"}, {"#len", "Int"}, {"#cap", "Int"}}
	case KIface:
		return []cs{{"#ty", "Int"}, {"#v", "Int"}}
	case KStruct, KArr, KTuple:
		return nil
	}
	return []cs{{"", "Int"}}
}

func structKey(t types.Type) string {
	// name of a struct type for heap keys
	if n, ok := t.(*types.Named); ok {
		o := n.Obj()
		if o.Pkg() != nil {
			return o.Pkg().Name() + "." + o.Name()
		}
		return o.Name()
	}
	if a, ok := t.(*types.Alias); ok {
		return structKey(types.Unalias(a))
	}
	return "anon." + typeName(t)
}

func fieldKey(st types.Type, f *types.Var) string { return structKey(st) + "." + f.Name() }

func elemKey(t types.Type) string { return "elem:" + typeName(t) }
func cellKey(t types.Type) string { return "cell:" + typeName(t) }

func (c *fnCtx) sel(key, suf, sort string, two bool, arr, idx string) string {
	k := key + suf
	c.em.regKey(k, sort, two)
	h := c.heapGet(k)
	if two {
		return "(select (select " + h + " " + arr + ") " + idx + ")"
	}
	return "(select " + h + " " + idx + ")"
}

func (c *fnCtx) upd(key, suf, sort string, two bool, arr, idx, v string) {
	k := key + suf
	if r := c.root(); r.resetRecv != "" && !two && !strings.HasPrefix(key, "ghost:") {
		// C05: remember that this field of the receiver (or of a struct nested in it by value) was assigned
		if idx == r.resetRecv || (strings.HasPrefix(idx, "(sub_") && strings.HasSuffix(idx, " "+r.resetRecv+strings.Repeat(")", strings.Count(idx, "(")))) {
			gk := "ghost:w:" + k
			c.em.regKey(gk, "Int", false)
			h := c.heapGet(gk)
			c.heapSet(gk, c.em.define("Hw", "(Array Int Int)", "(store "+h+" 0 1)"))
		}
	}
	c.em.regKey(k, sort, two)
	h := c.heapGet(k)
	var nt string
	if two {
		nt = fmt.Sprintf("(store %s %s (store (select %s %s) %s %s))", h, arr, h, arr, idx, v)
	} else {
		nt = fmt.Sprintf("(store %s %s %s)", h, idx, v)
	}
	c.heapSet(k, c.em.define("Hs_"+smtKey(k), c.em.keySort(k), nt))
}

// subRef is the reference of a nested (by value) struct/array field f of the struct at ref r.
func (c *fnCtx) subRef(st types.Type, f *types.Var, r string) string {
	fn := "sub_" + sanitize(fieldKey(st, f))
	if !c.em.subFns[fn] {
		c.em.subFns[fn] = true
		fmt.Fprintf(&c.em.out, "(declare-fun %s (Int) Int)\n(declare-fun %s_inv (Int) Int)\n", fn, fn)
	}
	t := "(" + fn + " " + r + ")"
	key := "subinst|" + t
	if !c.em.declared[key] && c.em.inlineMode == 0 {
		c.em.declared[key] = true
		c.em.assert(fmt.Sprintf("(and (< %s 0) (= (%s_inv %s) %s) (= (rkind %s) %d) (= (owner %s) (owner %s)))", t, fn, t, r, t, c.eng.kindID(fn), t, r))
	}
	return t
}

func (c *fnCtx) elemRef(arr, idx string) string {
	t := "(elem " + arr + " " + idx + ")"
	key := "eleminst|" + t
	if !c.em.declared[key] && c.em.inlineMode == 0 {
		c.em.declared[key] = true
		c.em.assert(fmt.Sprintf("(and (< %s 0) (= (elem_arr %s) %s) (= (elem_idx %s) %s) (= (rkind %s) 0) (= (owner %s) (owner %s)))", t, t, arr, t, idx, t, t, arr))
	}
	return t
}

// scalarLoad reads a scalar typed t from the cell (key,arr,idx).
func (c *fnCtx) scalarLoad(t types.Type, p *Ptr) *Val {
	if p.Op {
		return c.freshVal(t, "opq")
	}
	two := p.Arr != ""
	comps := scalarComponents(t)
	v := &Val{K: kindOf(t)}
	for _, cp := range comps {
		term := c.sel(p.Key, cp.suf, cp.sort, two, p.Arr, p.Idx)
		v.T = append(v.T, c.em.define("ld", cp.sort, term))
	}
	c.typeInv(t, v)
	return v
}

func (c *fnCtx) scalarStore(t types.Type, p *Ptr, v *Val) {
	if p.Op {
		c.havocAll()
		return
	}
	two := p.Arr != ""
	comps := scalarComponents(t)
	for i, cp := range comps {
		if i >= len(v.T) {
			break
		}
		c.upd(p.Key, cp.suf, cp.sort, two, p.Arr, p.Idx, v.T[i])
	}
	if two && p.Key == "elem:uint8" {
		c.initMark(p.Arr, p.Idx)
	}
}

// ptrTo builds a pointer value to an object of type t located "inside" something:
//
//	struct / array types: ref term ; scalar types: Ptr cell
func (c *fnCtx) fieldPtr(st types.Type, f *types.Var, r string) *Val {
	ft := f.Type()
	switch kindOf(ft) {
	case KStruct, KArr:
		return &Val{K: KPtr, T: []string{c.subRef(st, f, r)}}
	}
	return &Val{K: KPtr, T: []string{c.subRef(st, f, r)}, P: &Ptr{Key: fieldKey(st, f), Idx: r}}
}

func (c *fnCtx) elemPtr(et types.Type, arr, idx string) *Val {
	switch kindOf(et) {
	case KStruct, KArr:
		return &Val{K: KPtr, T: []string{c.elemRef(arr, idx)}}
	}
	return &Val{K: KPtr, T: []string{c.elemRef(arr, idx)}, P: &Ptr{Key: elemKey(et), Arr: arr, Idx: idx}}
}

// cellOf returns the scalar cell a pointer value designates.
func (c *fnCtx) cellOf(p *Val, et types.Type) *Ptr {
	if p.P != nil {
		return p.P
	}
	return &Ptr{Key: cellKey(et), Idx: p.T[0]}
}

// load reads a value of type t through pointer p.
func (c *fnCtx) load(p *Val, t types.Type) *Val {
	switch kindOf(t) {
	case KStruct:
		st := t.Underlying().(*types.Struct)
		v := &Val{K: KStruct}
		for i := 0; i < st.NumFields(); i++ {
			v.F = append(v.F, c.load(c.fieldPtr(t, st.Field(i), p.T[0]), st.Field(i).Type()))
		}
		return v
	case KArr:
		at := t.Underlying().(*types.Array)
		if srt, ok := elemSort(at.Elem()); ok {
			k := elemKey(at.Elem())
			c.em.regKey(k, srt, true)
			return &Val{K: KArr, T: []string{c.em.define("arrv", "(Array Int "+srt+")", "(select "+c.heapGet(k)+" "+p.T[0]+")")}}
		}
		return c.freshVal(t, "arrv")
	}
	return c.scalarLoad(t, c.cellOf(p, t))
}

func (c *fnCtx) store(p *Val, t types.Type, v *Val) {
	switch kindOf(t) {
	case KStruct:
		st := t.Underlying().(*types.Struct)
		for i := 0; i < st.NumFields(); i++ {
			var fv *Val
			if v != nil && i < len(v.F) {
				fv = v.F[i]
			}
			if fv == nil {
				fv = c.freshVal(st.Field(i).Type(), "sf")
			}
			c.store(c.fieldPtr(t, st.Field(i), p.T[0]), st.Field(i).Type(), fv)
		}
		return
	case KArr:
		at := t.Underlying().(*types.Array)
		if srt, ok := elemSort(at.Elem()); ok && v != nil && v.K == KArr && len(v.T) == 1 {
			k := elemKey(at.Elem())
			c.em.regKey(k, srt, true)
			h := c.heapGet(k)
			c.heapSet(k, c.em.define("Hs_"+smtKey(k), c.em.keySort(k), "(store "+h+" "+p.T[0]+" "+v.T[0]+")"))
			return
		}
		// unknown array contents: havoc element heaps of that type
		c.havocElemType(at.Elem())
		return
	}
	c.scalarStore(t, c.cellOf(p, t), v)
}

func (c *fnCtx) havocElemType(et types.Type) {
	switch kindOf(et) {
	case KStruct:
		st := et.Underlying().(*types.Struct)
		for i := 0; i < st.NumFields(); i++ {
			f := st.Field(i)
			switch kindOf(f.Type()) {
			case KStruct:
				c.havocElemType(f.Type())
			case KArr:
				c.havocElemType(f.Type().Underlying().(*types.Array).Elem())
			default:
				for _, cp := range scalarComponents(f.Type()) {
					k := fieldKey(et, f) + cp.suf
					c.em.regKey(k, cp.sort, false)
					c.havocKey(k)
				}
			}
		}
	case KArr:
		c.havocElemType(et.Underlying().(*types.Array).Elem())
	default:
		for _, cp := range scalarComponents(et) {
			k := elemKey(et) + cp.suf
			c.em.regKey(k, cp.sort, true)
			c.havocKey(k)
		}
	}
}

// zeroInit stores zero values for a freshly allocated object of type t at ref r.
func (c *fnCtx) zeroInit(t types.Type, r string, depth int) {
	switch kindOf(t) {
	case KStruct:
		st := t.Underlying().(*types.Struct)
		for i := 0; i < st.NumFields(); i++ {
			f := st.Field(i)
			switch kindOf(f.Type()) {
			case KStruct, KArr:
				if depth < 4 {
					c.zeroInit(f.Type(), c.subRef(t, f, r), depth+1)
				}
			default:
				for _, cp := range scalarComponents(f.Type()) {
					z := "0"
					if cp.sort == "Bool" {
						z = "false"
					}
					c.upd(fieldKey(t, f), cp.suf, cp.sort, false, "", r, z)
				}
			}
		}
	case KArr:
		at := t.Underlying().(*types.Array)
		if srt, ok := elemSort(at.Elem()); ok {
			k := elemKey(at.Elem())
			c.em.regKey(k, srt, true)
			z := "0"
			if srt == "Bool" {
				z = "false"
			}
			h := c.heapGet(k)
			c.heapSet(k, c.em.define("Hz", c.em.keySort(k), fmt.Sprintf("(store %s %s ((as const (Array Int %s)) %s))", h, r, srt, z)))
		}
	default:
		for _, cp := range scalarComponents(t) {
			z := "0"
			if cp.sort == "Bool" {
				z = "false"
			}
			c.upd(cellKey(t), cp.suf, cp.sort, false, "", r, z)
		}
	}
}

// zeroSlice zero-initialises the contents of a fresh array id for element type et.
func (c *fnCtx) zeroSlice(et types.Type, arr string) {
	for _, cp := range scalarComponents(et) {
		if kindOf(et) == KStruct || kindOf(et) == KArr {
			return
		}
		k := elemKey(et) + cp.suf
		c.em.regKey(k, cp.sort, true)
		z := "0"
		if cp.sort == "Bool" {
			z = "false"
		}
		h := c.heapGet(k)
		c.heapSet(k, c.em.define("Hz", c.em.keySort(k), fmt.Sprintf("(store %s %s ((as const (Array Int %s)) %s))", h, arr, cp.sort, z)))
	}
}

// newRef allocates a fresh object identity above the watermark.
func (c *fnCtx) newRef(hint string) string {
	wm := c.heapGet("$wm")
	r := c.em.define(hint, "Int", "(+ "+wm+" 1)")
	c.heapSet("$wm", r)
	if c.em.inlineMode == 0 {
		c.em.assert("(= (owner " + r + ") " + r + ")")
	}
	return r
}

// typeInv asserts the representation invariant of a value of type t (ranges, slice shape).
func (c *fnCtx) typeInv(t types.Type, v *Val) {
	if c.em.inlineMode > 0 {
		return
	}
	switch v.K {
	case KInt:
		if b, ok := t.Underlying().(*types.Basic); ok {
			if lo, hi, ok := intRange(b); ok && strings.ContainsAny(v.T[0], "_") {
				c.assertHere(fmt.Sprintf("(and (<= %s %s) (<= %s %s))", neg(lo), v.T[0], v.T[0], hi))
			}
		}
	case KStr:
		c.assertHere("(<= 0 " + v.T[1] + ")")
	case KSlice:
		c.assertHere(fmt.Sprintf("(and (<= 0 %s) (<= 0 %s) (<= %s %s) (<= (+ %s %s) %s) (=> (= %s 0) (= %s 0)) (<= (owner %s) %s))",
			v.T[1], v.T[2], v.T[2], v.T[3], v.T[1], v.T[3], maxLen, v.T[0], v.T[3], v.T[0], c.heapGet("$wm")))
		// arrays are typed: a []T and a []U with different element types never share backing memory
		if sl, ok := t.Underlying().(*types.Slice); ok {
			c.assertHere(fmt.Sprintf("(=> (not (= %s 0)) (= (atype %s) %d))", v.T[0], v.T[0], c.eng.elemTypeID(sl.Elem())))
		}
	case KPtr:
		c.assertHere("(<= (owner " + v.T[0] + ") " + c.heapGet("$wm") + ")")
	case KIface:
		c.assertHere(fmt.Sprintf("(and (>= %s 0) (<= (owner %s) %s))", v.T[0], v.T[1], c.heapGet("$wm")))
	}
}

// assertHere states a fact that is only meaningful on paths through the current block (type invariants of
// values computed or loaded there): it is guarded by the block's reachability so that it can never make a
// different path infeasible.
func (c *fnCtx) assertHere(f string) {
	g := ""
	if c.reach != nil && c.curB != nil {
		g = c.reach[c.curB]
	}
	if g == "" || g == "true" {
		c.em.assert(f)
		return
	}
	c.em.assert("(=> " + g + " " + f + ")")
}

// freshVal creates an unconstrained value of type t satisfying its type invariant.
func (c *fnCtx) freshVal(t types.Type, hint string) *Val {
	k := kindOf(t)
	switch k {
	case KInt, KOpaque:
		n := c.em.fresh(hint)
		c.em.decl(n, "Int")
		v := &Val{K: k, T: []string{n}}
		c.typeInv(t, v)
		return v
	case KBool:
		n := c.em.fresh(hint)
		c.em.decl(n, "Bool")
		return &Val{K: k, T: []string{n}}
	case KStr:
		v := &Val{K: k}
		for _, s := range []string{"id", "len"} {
			n := c.em.fresh(hint + s)
			c.em.decl(n, "Int")
			v.T = append(v.T, n)
		}
		c.typeInv(t, v)
		return v
	case KSlice:
		v := &Val{K: k}
		for _, s := range []string{"arr", "off", "len", "cap"} {
			n := c.em.fresh(hint + s)
			c.em.decl(n, "Int")
			v.T = append(v.T, n)
		}
		c.typeInv(t, v)
		return v
	case KPtr:
		n := c.em.fresh(hint)
		c.em.decl(n, "Int")
		v := &Val{K: k, T: []string{n}}
		c.typeInv(t, v)
		return v
	case KIface:
		v := &Val{K: k}
		for _, s := range []string{"ty", "v"} {
			n := c.em.fresh(hint + s)
			c.em.decl(n, "Int")
			v.T = append(v.T, n)
		}
		c.typeInv(t, v)
		return v
	case KStruct:
		st := t.Underlying().(*types.Struct)
		v := &Val{K: k}
		for i := 0; i < st.NumFields(); i++ {
			v.F = append(v.F, c.freshVal(st.Field(i).Type(), hint+"f"))
		}
		return v
	case KTuple:
		tp := t.Underlying().(*types.Tuple)
		v := &Val{K: k}
		for i := 0; i < tp.Len(); i++ {
			v.F = append(v.F, c.freshVal(tp.At(i).Type(), hint+"t"))
		}
		return v
	case KArr:
		at := t.Underlying().(*types.Array)
		if srt, ok := elemSort(at.Elem()); ok {
			n := c.em.fresh(hint)
			c.em.decl(n, "(Array Int "+srt+")")
			if srt == "Int" {
				if b, ok := at.Elem().Underlying().(*types.Basic); ok {
					if lo, hi, ok := intRange(b); ok {
						c.em.assert(fmt.Sprintf("(forall ((k Int)) (! (and (<= %s (select %s k)) (<= (select %s k) %s)) :pattern ((select %s k))))", neg(lo), n, n, hi, n))
					}
				}
			}
			return &Val{K: k, T: []string{n}}
		}
		n := c.em.fresh(hint)
		c.em.decl(n, "Int")
		return &Val{K: KOpaque, T: []string{n}}
	}
	panic("freshVal")
}

// zeroVal is the Go zero value of type t.
func (c *fnCtx) zeroVal(t types.Type) *Val {
	switch kindOf(t) {
	case KInt, KOpaque:
		return &Val{K: kindOf(t), T: []string{"0"}}
	case KBool:
		return bv("false")
	case KStr:
		return &Val{K: KStr, T: []string{"0", "0"}}
	case KSlice:
		return &Val{K: KSlice, T: []string{"0", "0", "0", "0"}}
	case KPtr:
		return &Val{K: KPtr, T: []string{"0"}}
	case KIface:
		return &Val{K: KIface, T: []string{"0", "0"}}
	case KStruct:
		st := t.Underlying().(*types.Struct)
		v := &Val{K: KStruct}
		for i := 0; i < st.NumFields(); i++ {
			v.F = append(v.F, c.zeroVal(st.Field(i).Type()))
		}
		return v
	case KTuple:
		tp := t.Underlying().(*types.Tuple)
		v := &Val{K: KTuple}
		for i := 0; i < tp.Len(); i++ {
			v.F = append(v.F, c.zeroVal(tp.At(i).Type()))
		}
		return v
	case KArr:
		at := t.Underlying().(*types.Array)
		if srt, ok := elemSort(at.Elem()); ok {
			z := "0"
			if srt == "Bool" {
				z = "false"
			}
			return &Val{K: KArr, T: []string{fmt.Sprintf("((as const (Array Int %s)) %s)", srt, z)}}
		}
		return &Val{K: KOpaque, T: []string{"0"}}
	}
	panic("zeroVal")
}

// eqVals builds the conjunction of component equalities of two values of the same shape.
func eqVals(a, b *Val) string {
	var parts []string
	var rec func(a, b *Val)
	rec = func(a, b *Val) {
		if a == nil || b == nil {
			return
		}
		if len(a.F) > 0 || len(b.F) > 0 {
			for i := range a.F {
				if i < len(b.F) {
					rec(a.F[i], b.F[i])
				}
			}
			return
		}
		for i := range a.T {
			if i < len(b.T) && a.T[i] != b.T[i] {
				parts = append(parts, "(= "+a.T[i]+" "+b.T[i]+")")
			}
		}
	}
	rec(a, b)
	if len(parts) == 0 {
		return "true"
	}
	if len(parts) == 1 {
		return parts[0]
	}
	return "(and " + strings.Join(parts, " ") + ")"
}

func (e *Emit) keyKnown(key string) bool { _, ok := e.sorts[key]; return ok }
