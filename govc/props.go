package main

import (
	"go/types"
	"regexp"
	"sort"
	"strings"

	"golang.org/x/tools/go/ssa"
)

var safetyClasses = []string{"idx", "slice", "nil", "div", "make", "typeassert", "mapnil", "panic", "pre"}

func classSet(groups ...[]string) map[string]bool {
	m := map[string]bool{}
	for _, g := range groups {
		for _, c := range g {
			m[c] = true
		}
	}
	return m
}

// PropScope describes which functions carry a property and which obligation classes decide it.
type PropScope struct {
	ID         string
	Roots      func(e *Engine) []*ssa.Function
	Closure    bool // add transitive in-module static callees of the roots
	Cfg        func(e *Engine, f *ssa.Function, root bool) *FnConfig
	NotCovered []string
	Technique  string
	Statement  string
	NoReplay   bool // roots cannot be driven from a model by the generic harness (e.g. need a constructed reader)
}

func isDecodeFuncSig(f *ssa.Function) bool {
	sig := f.Signature
	if sig.Recv() != nil && f.Name() != "Decode" {
		return false
	}
	ps := sig.Params()
	if ps.Len() != 2 || sig.Results().Len() != 1 {
		return false
	}
	return isByteSlice(ps.At(0).Type()) && strings.HasSuffix(ps.At(1).Type().String(), "gopacket.PacketBuilder")
}

func isDecodeFromBytes(f *ssa.Function) bool {
	if f.Name() != "DecodeFromBytes" || f.Signature.Recv() == nil {
		return false
	}
	ps := f.Signature.Params()
	return ps.Len() == 2 && isByteSlice(ps.At(0).Type()) && strings.HasSuffix(ps.At(1).Type().String(), "gopacket.DecodeFeedback")
}

func (e *Engine) fnFile(f *ssa.Function) string {
	p := f.Pos()
	if !p.IsValid() && f.Parent() != nil {
		return e.fnFile(f.Parent())
	}
	if !p.IsValid() {
		for _, b := range f.Blocks {
			for _, in := range b.Instrs {
				if in.Pos().IsValid() {
					return shortFile(e.prog.Fset.Position(in.Pos()).Filename)
				}
			}
		}
		return ""
	}
	return shortFile(e.prog.Fset.Position(p).Filename)
}

func (e *Engine) pkgName(f *ssa.Function) string {
	k := e.fnKey(f)
	if i := strings.Index(k, "."); i >= 0 {
		return k[:i]
	}
	return k
}

func (e *Engine) selectFns(pred func(f *ssa.Function) bool) []*ssa.Function {
	var r []*ssa.Function
	for _, f := range e.allFns {
		if f.Parent() != nil {
			continue
		}
		if pred(f) {
			r = append(r, f)
		}
	}
	return r
}

// closure adds transitive in-module static callees (and statically unresolved anonymous functions).
func (e *Engine) closure(roots []*ssa.Function) (all []*ssa.Function, isRoot map[*ssa.Function]bool) {
	isRoot = map[*ssa.Function]bool{}
	seen := map[*ssa.Function]bool{}
	var work []*ssa.Function
	for _, r := range roots {
		isRoot[r] = true
		if !seen[r] {
			seen[r] = true
			work = append(work, r)
		}
	}
	for len(work) > 0 {
		f := work[len(work)-1]
		work = work[:len(work)-1]
		all = append(all, f)
		add := func(g *ssa.Function) {
			if g == nil || seen[g] || g.Blocks == nil || !e.isModule(g) {
				return
			}
			if g.Synthetic != "" && !strings.Contains(g.Synthetic, "instance") {
				return
			}
			seen[g] = true
			work = append(work, g)
		}
		for _, b := range f.Blocks {
			for _, in := range b.Instrs {
				switch x := in.(type) {
				case ssa.CallInstruction:
					cc := x.Common()
					if cal := cc.StaticCallee(); cal != nil {
						if cal.Parent() != nil && e.inlinable(cal) {
							continue // closure inlined at its call site
						}
						add(cal)
					} else if mc := resolveClosure(cc.Value, 0); mc != nil {
						cal := mc.Fn.(*ssa.Function)
						if !e.inlinable(cal) {
							add(cal)
						}
					}
				case *ssa.MakeClosure:
					cal := x.Fn.(*ssa.Function)
					if !e.inlinable(cal) {
						add(cal)
					}
				}
			}
		}
	}
	sort.Slice(all, func(i, j int) bool { return e.fnKey(all[i]) < e.fnKey(all[j]) })
	return
}

var readerFiles = regexp.MustCompile(`^(read|ngread|ngread_nrb|ngread_dsb|snoop|pcapng)\.go$`)

func scopes() map[string]*PropScope {
	m := map[string]*PropScope{}
	add := func(s *PropScope) { m[s.ID] = s }

	add(&PropScope{ID: "C19", Closure: true, Technique: "contract-based deductive verification: zero-annotation no-panic/termination VCs over go/ssa + thin helper contracts, z3/cvc5",
		Roots: func(e *Engine) []*ssa.Function {
			return e.selectFns(func(f *ssa.Function) bool {
				pk := e.pkgName(f)
				if pk != "layers" && pk != "gopacket" {
					return false
				}
				if isDecodeFromBytes(f) || (isDecodeFuncSig(f) && f.Signature.Recv() == nil) {
					return true
				}
				k := e.fnKey(f)
				return k == "gopacket.DecodingLayerParser.DecodeLayers" || strings.HasSuffix(k, ".LayersDecoder") && pk == "gopacket"
			})
		},
		Cfg: func(e *Engine, f *ssa.Function, root bool) *FnConfig {
			return &FnConfig{Classes: classSet(safetyClasses, []string{"dec", "post", "inv-entry", "inv-pres"})}
		},
		NotCovered: []string{"reflection-based helpers are outside the subset"},
	})

	add(&PropScope{ID: "C15", Closure: true, NoReplay: true, Technique: "contract-based deductive verification: no-panic, allocation-bound and termination VCs over the reader functions, z3/cvc5",
		Roots: func(e *Engine) []*ssa.Function {
			return e.selectFns(func(f *ssa.Function) bool {
				return e.pkgName(f) == "pcapgo" && readerFiles.MatchString(e.fnFile(f)) && !strings.HasPrefix(f.Name(), "init")
			})
		},
		Cfg: func(e *Engine, f *ssa.Function, root bool) *FnConfig {
			return &FnConfig{Classes: classSet(safetyClasses, []string{"dec", "alloc", "post", "inv-entry", "inv-pres"})}
		},
		NotCovered: []string{"compress/gzip internals (external)", "actual allocator measurements"},
	})

	add(&PropScope{ID: "C07", Closure: true, Technique: "contract-based deductive verification: no-panic VCs of every SerializeTo under the SerializeBuffer interface contract + definite-initialisation ghost, z3/cvc5",
		Roots: func(e *Engine) []*ssa.Function {
			return e.selectFns(func(f *ssa.Function) bool {
				pk := e.pkgName(f)
				if !(pk == "layers" || pk == "gopacket") || f.Name() != "SerializeTo" || f.Signature.Recv() == nil {
					return false
				}
				// the SerializableLayer method, not helpers that happen to share the name (ICMPv4TypeCode.SerializeTo(bytes))
				ps := f.Signature.Params()
				return ps.Len() == 2 && strings.HasSuffix(ps.At(0).Type().String(), "gopacket.SerializeBuffer")
			})
		},
		Cfg: func(e *Engine, f *ssa.Function, root bool) *FnConfig {
			return &FnConfig{Classes: classSet(safetyClasses, []string{"init", "post", "inv-entry", "inv-pres"}), TrackInit: true}
		},
	})
	decoderRoots := func(e *Engine) []*ssa.Function {
		return e.selectFns(func(f *ssa.Function) bool {
			pk := e.pkgName(f)
			if pk != "layers" && pk != "gopacket" {
				return false
			}
			return isDecodeFromBytes(f) || (isDecodeFuncSig(f) && f.Signature.Recv() == nil)
		})
	}
	accessorNames := map[string]bool{"VerifyChecksum": true, "String": true, "GoString": true, "LinkFlow": true, "NetworkFlow": true, "TransportFlow": true,
		"LayerContents": true, "LayerPayload": true, "Payload": true, "CanDecode": true, "NextLayerType": true, "LayerType": true, "Error": true,
		"LinkLayer": true, "NetworkLayer": true, "TransportLayer": true, "ApplicationLayer": true, "ErrorLayer": true, "Layers": true, "Layer": true, "LayerClass": true,
		"Dump": true, "Data": true, "Metadata": true, "VerifyChecksums": true}
	accessorRoots := func(e *Engine) []*ssa.Function {
		return e.selectFns(func(f *ssa.Function) bool {
			pk := e.pkgName(f)
			if pk != "layers" && pk != "gopacket" || f.Signature.Recv() == nil || !accessorNames[f.Name()] {
				return false
			}
			k := e.fnKey(f)
			return !strings.Contains(k, ".lazyPacket.") && !strings.Contains(k, "PacketSource")
		})
	}
	add(&PropScope{ID: "C02", Closure: true, Technique: "contract-based deductive verification: generated frame contracts (input buffer never written, no stores to package state, read-only accessors), z3/cvc5",
		Roots: func(e *Engine) []*ssa.Function { return append(decoderRoots(e), accessorRoots(e)...) },
		Cfg: func(e *Engine, f *ssa.Function, root bool) *FnConfig {
			if f.Signature.Recv() != nil && accessorNames[f.Name()] {
				return &FnConfig{Classes: classSet([]string{"frame-ro", "frame-glob"}), ReadOnly: true, NoGlobal: true}
			}
			// "cap": a decoder that re-slices its input beyond len makes the result depend on bytes that are not part
			// of the input (whatever the caller's buffer holds behind it) - not a function of the bytes any more
			return &FnConfig{Classes: classSet([]string{"frame-in", "frame-glob", "cap"}), InputData: true, NoGlobal: true}
		},
		NotCovered: []string{"actual goroutine interleavings and -race runs: the schedule clause is argued from the read-only frames, not explored", "lazy packets (documented as not shareable)"},
	})
	add(&PropScope{ID: "C04", Closure: true, Technique: "contract-based deductive verification: capacity-independence obligations of every decoder (no re-slicing of the input beyond len) + NewPacket contract, z3/cvc5",
		Roots: decoderRoots,
		Cfg: func(e *Engine, f *ssa.Function, root bool) *FnConfig {
			return &FnConfig{Classes: classSet([]string{"cap", "post", "frame", "assert"}), InputData: true}
		},
		NotCovered: []string{"pool interleavings: 'no two undisposed pooled packets share memory' rests on the assumed contract of sync.Pool"},
	})
	add(&PropScope{ID: "C03", Closure: true, Technique: "contract-based deductive verification: PacketBuilder typestate obligations on every decoder + write-once / append-only contracts on the packet builder, z3/cvc5",
		Roots: func(e *Engine) []*ssa.Function {
			return e.selectFns(func(f *ssa.Function) bool {
				pk := e.pkgName(f)
				return (pk == "layers" || pk == "gopacket") && isDecodeFuncSig(f)
			})
		},
		Cfg: func(e *Engine, f *ssa.Function, root bool) *FnConfig {
			return &FnConfig{Classes: classSet([]string{"typestate", "post", "frame", "inv-entry", "inv-pres"}), PB: true}
		},
	})
	add(&PropScope{ID: "C05", Closure: false, Technique: "contract-based deductive verification: reset obligations (every receiver field assigned on each successful DecodeFromBytes return) via ghost write flags, container and parser contracts, z3/cvc5",
		Roots: func(e *Engine) []*ssa.Function {
			return e.selectFns(func(f *ssa.Function) bool {
				pk := e.pkgName(f)
				return (pk == "layers" || pk == "gopacket") && isDecodeFromBytes(f)
			})
		},
		Cfg: func(e *Engine, f *ssa.Function, root bool) *FnConfig {
			if isDecodeFromBytes(f) {
				return &FnConfig{Classes: classSet([]string{"reset"}), Reset: true}
			}
			return &FnConfig{}
		},
		NotCovered: []string{"the reset obligation checks that each field is assigned on every successful return, not that the assigned value is independent of the previous contents (x = x[:0] re-use is accepted)", "fixed-size array fields are not tracked", "equality of field values between parser and NewPacket follows from both running the same DecodeFromBytes (canonical wrapper typestate: C03)"},
	})
	add(&PropScope{ID: "C01", Closure: true, NoReplay: true, Technique: "contract-based deductive verification: recover-dominance and error-layer contracts in packet.go, decoder typestate / progress / termination obligations, no-panic VCs of accessor and renderer methods, z3/cvc5",
		Roots: func(e *Engine) []*ssa.Function {
			r := e.selectFns(func(f *ssa.Function) bool {
				pk := e.pkgName(f)
				return (pk == "layers" || pk == "gopacket") && isDecodeFuncSig(f)
			})
			return append(r, accessorRoots(e)...)
		},
		Cfg: func(e *Engine, f *ssa.Function, root bool) *FnConfig {
			if f.Signature.Recv() != nil && accessorNames[f.Name()] {
				return &FnConfig{Classes: classSet(safetyClasses)}
			}
			if isDecodeFuncSig(f) {
				return &FnConfig{Classes: classSet([]string{"typestate-err", "progress", "dec", "post", "assert", "frame", "inv-entry", "inv-pres"}), PB: true}
			}
			return &FnConfig{Classes: classSet(safetyClasses, []string{"dec", "post", "assert", "frame", "inv-entry", "inv-pres"})}
		},
		NotCovered: []string{"reflection-based renderers (LayerString/LayerDump/LayerGoString) are outside the subset: assumed not to panic on values whose Stringers do not panic", "accessors are verified for arbitrary receiver state (stronger than 'a packet that decoding produced'); obligations that need decode-established invariants are listed as not claimed"},
	})
	internalOnly := map[string]bool{"C11": true, "C14": true, "C06": true} // contracted functions are internal: a zero-valued receiver is not a state the API can produce, so models are not replayed
	tagged := func(id, technique string, notCovered ...string) {
		add(&PropScope{ID: id, Closure: false, Technique: technique, NotCovered: notCovered, NoReplay: internalOnly[id],
			Roots: func(e *Engine) []*ssa.Function {
				var r []*ssa.Function
				for _, k := range e.contractKeys() {
					for _, p := range e.contracts[k].Props {
						if p == id {
							if f := e.fnByKey[k]; f != nil {
								r = append(r, f)
							}
						}
					}
				}
				return r
			},
			Cfg: func(e *Engine, f *ssa.Function, root bool) *FnConfig {
				if internalOnly[id] || id == "C08" && e.pkgName(f) == "layers" {
					// the property is carried by the contract clauses; run-time safety of these internals belongs to other checks
					return &FnConfig{Classes: classSet([]string{"pre", "post", "inv-entry", "inv-pres", "assert", "frame"})}
				}
				return &FnConfig{}
			},
		})
	}
	tagged("C13", "contract-based deductive verification: RFC 791 fragment arithmetic of the security checks over mathematical integers, exact truth table of dontDefrag, z3/cvc5",
		"insert/build contracts with the ghost sequence model of container/list are not written yet: the safety half ('never a byte no fragment put there', consistent header) and the history theorem (returns the datagram exactly when the last fragment arrives) are not claimed", "ip6defrag")
	tagged("C16", "contract-based deductive verification: sequential clauses of the packet source (zero-copy guard, pull interface) with an interface contract for options checked on every implementer, z3/cvc5",
		"everything about the channel goroutine: exactly-once through the channel, retry timing, close on EOF, cancellation latency (schedules)")
	tagged("C14", "contract-based deductive verification: ghost byte counters on the buffered reader / writer (assumed bufio contracts), option framing of the pcapng reader (every option consumes 4 + length + padding bytes), data padding before the options in the pcapng writer, result clause of the pcap reader, z3/cvc5",
		"writer->reader equality of whole files (needs a byte-sequence model of the stream through bufio): only framing arithmetic and result clauses are proved",
		"libpcap reading the same packets (cgo)", "truncation at an arbitrary offset yields a true prefix: follows from the reader contracts (an error from the stream is returned, complete records consume exactly their bytes) but is not proved as a whole-file theorem",
		"option values written by writeOptions (the option payload is boxed in an interface{}: lengths are lost in the model)")
	tagged("C06", "contract-based deductive verification: byte-layout contracts on SerializeTo (over the abstract view of the SerializeBuffer interface contract) and on DecodeFromBytes, round trip proved as ghost code over the two contracts, z3/cvc5",
		"only the layers whose SerializeTo and DecodeFromBytes carry layout contracts are covered (listed under functions_under_contract); variable-length option lists, DNS names and the stacking helper are not",
		"idempotence (writing the decoded stack again reproduces the bytes) follows from the layout contracts being functions of the fields but is not proved as a separate lemma")
	tagged("C11", "contract-based deductive verification: completion-once typestate (closed flag) of both assemblers, page accounting of pagesFromTCP against a ghost count of page-cache allocations, z3/cvc5",
		"no page remains in use after FlushAll, pages never exceed the limit by more than the current packet, age cut-off exactness: global accounting over linked lists and maps of connections (whole-history)",
		"everything that depends on goroutine interleavings")
	tagged("C08", "contract-based deductive verification: functional contracts against RFC 1071 spec functions (sum16/oc16), loop invariants, z3/cvc5")
	tagged("C17", "contract-based deductive verification: value invariants wfE/wfF, functional contracts, lemmas over contracts as ghost code, z3/cvc5")
	tagged("C18", "contract-based deductive verification: representation invariant + abstract view contracts with frames on every buffer method, z3/cvc5")
	tagged("C09", "contract-based deductive verification: sequence-arithmetic kernel against the modular-distance spec sdiff32, z3/cvc5",
		"whole-history theorem (delivered concatenation equals the sender's stream for every arrival history) is not decided by per-function contracts")
	tagged("C10", "contract-based deductive verification: sequence-arithmetic kernel against the modular-distance spec sdiff32, z3/cvc5",
		"whole-history theorem (delivered concatenation equals the sender's stream for every arrival history) is not decided by per-function contracts")
	return m
}

var _ = types.Typ
