package main

import (
	"fmt"
	"go/token"
	"go/types"
	"strings"

	"golang.org/x/tools/go/ssa"
)

// Property-specific ghost layers hooked into the translator:
//   frame-in   : the decoder input array is never written (C02) / never depends on capacity (C04)
//   frame-glob : no store to package-level state outside init (C02)
//   init       : every byte handed out by PrependBytes/AppendBytes is written before a nil-error return (C07)
//   typestate  : PacketBuilder protocol events (C01/C03)

type readEvent struct {
	buf      *Val
	contents string
}

type pbEvent struct {
	kind  string
	pos   token.Pos
	reach string
}

type ghostCfg struct {
	inputArr  string // array id of the decoder input, "" when not tracked
	inputName string
	trackInit bool
	pb        ssa.Value // the PacketBuilder parameter
	noGlobal  bool
}

func rootOfAddr(v ssa.Value) ssa.Value {
	for {
		switch x := v.(type) {
		case *ssa.FieldAddr:
			v = x.X
		case *ssa.IndexAddr:
			v = x.X
		default:
			return v
		}
	}
}

// frameCheck is called for every Store.
func (c *fnCtx) frameCheck(addr ssa.Value, pos token.Pos) {
	if c.mute && c.inlineOf == nil {
		return
	}
	g := c.ghostCfg()
	if g == nil {
		return
	}
	if g.noGlobal && c.eng.wantClass("frame-glob") {
		if gl, ok := rootOfAddr(addr).(*ssa.Global); ok {
			c.root().addOblAt(c, "frame-glob", pos, "false", "store to package variable "+gl.Name())
		}
	}
	if g.inputArr != "" && c.eng.wantClass("frame-in") {
		p := c.val(addr)
		if p.P != nil && p.P.Arr != "" {
			c.root().addOblAt(c, "frame-in", pos, "(not (= "+p.P.Arr+" "+g.inputArr+"))", "")
		}
	}
}

func (c *fnCtx) root() *fnCtx {
	r := c
	for r.inlineOf != nil {
		r = r.inlineOf
	}
	return r
}

func (c *fnCtx) ghostCfg() *ghostCfg { return c.root().gcfg }

// addOblAt adds an obligation to the root context guarded by the reach predicate of the (possibly inlined) site.
func (r *fnCtx) addOblAt(site *fnCtx, class string, pos token.Pos, cond, text string) {
	if r.mute {
		return
	}
	if text == "" {
		text = r.eng.srcText(pos)
	}
	if site != r {
		text = site.eng.fnKey(site.f) + ":" + text
	}
	o := &Obl{Class: class, Fn: r.fnName(), Pos: r.eng.prog.Fset.Position(pos), Text: text, Guard: site.reach[site.curB], Cond: cond}
	key := class + ":" + text
	n := r.occ[key]
	r.occ[key] = n + 1
	o.Name = fmt.Sprintf("%s#%s:%s/%d", o.Fn, class, shortText(text), n)
	r.obls = append(r.obls, o)
}

func (c *fnCtx) appendFrame(in ssa.Instruction, cc *ssa.CallCommon, s *Val, inplace, tlen string) {
	g := c.ghostCfg()
	if g == nil || g.inputArr == "" || !c.eng.wantClass("frame-in") {
		return
	}
	c.root().addOblAt(c, "frame-in", in.Pos(), fmt.Sprintf("(not (and %s (> %s 0) (= %s %s)))", inplace, tlen, s.T[0], g.inputArr), "")
}

func (c *fnCtx) copyFrame(in ssa.Instruction, cc *ssa.CallCommon, d *Val, n string) {
	g := c.ghostCfg()
	if g == nil || g.inputArr == "" || !c.eng.wantClass("frame-in") {
		return
	}
	c.root().addOblAt(c, "frame-in", in.Pos(), fmt.Sprintf("(not (and (> %s 0) (= %s %s)))", n, d.T[0], g.inputArr), "")
}

func (c *fnCtx) writeFrame(in ssa.Instruction, s *Val, n string) {
	g := c.ghostCfg()
	if g == nil || g.inputArr == "" || !c.eng.wantClass("frame-in") {
		return
	}
	c.root().addOblAt(c, "frame-in", in.Pos(), fmt.Sprintf("(not (and (> %s 0) (= %s %s)))", n, s.T[0], g.inputArr), "")
}

// capCheck: behaviour must not depend on spare capacity of the input (re-slicing input beyond len).
func (c *fnCtx) capCheck(in *ssa.Slice, s *Val, hi string) {
	g := c.ghostCfg()
	if g == nil || g.inputArr == "" || !c.eng.wantClass("cap") || in.High == nil {
		return
	}
	c.root().addOblAt(c, "cap", in.Pos(), fmt.Sprintf("(=> (= %s %s) (<= %s %s))", s.T[0], g.inputArr, hi, s.T[2]), "")
}

// allocCheck: allocation size bounds (C15) — filled by alloc contracts.
func (c *fnCtx) allocCheck(in *ssa.MakeSlice, n string) {
	if c.mute || !c.eng.wantClass("alloc") {
		return
	}
	b := c.eng.allocBound(c, in)
	if b == "" {
		return
	}
	c.addObl("alloc", in.Pos(), "(<= "+n+" "+b+")", "")
}

func (e *Engine) allocBound(c *fnCtx, in *ssa.MakeSlice) string { return "" }

// ---- init ghost (C07) -------------------------------------------------------------------------

const initKey = "ghost:init"

func (c *fnCtx) initOn() bool {
	g := c.ghostCfg()
	return g != nil && g.trackInit
}

func (c *fnCtx) initMark(arr, idx string) {
	if !c.initOn() {
		return
	}
	c.em.regKey(initKey, "Bool", true)
	c.upd(initKey, "", "Bool", true, arr, idx, "true")
}

func (c *fnCtx) initRange(s *Val, lo, n string) {
	if !c.initOn() {
		return
	}
	c.em.regKey(initKey, "Bool", true)
	h := c.heapGet(initKey)
	a2 := c.em.fresh("Ainit")
	c.em.decl(a2, "(Array Int Bool)")
	c.em.assert(fmt.Sprintf("(forall ((k Int)) (! (= (select %s k) (or (select (select %s %s) k) (and (<= (+ %s %s) k) (< k (+ %s %s %s))))) :pattern ((select %s k))))",
		a2, h, s.T[0], s.T[1], lo, s.T[1], lo, n, a2))
	c.heapSet(initKey, c.em.define("Hin", c.em.keySort(initKey), "(store "+h+" "+s.T[0]+" "+a2+")"))
}

func (c *fnCtx) initCopy(d *Val, n string) { c.initRange(d, "0", n) }

func (c *fnCtx) initNote(r *Val, in ssa.Instruction) {}

func (c *fnCtx) sbEvent(name, n string, r *Val) {
	if !c.initOn() {
		return
	}
	root := c.root()
	switch name {
	case "PrependBytes", "AppendBytes":
		// fresh window: nothing initialised yet
		c.em.regKey(initKey, "Bool", true)
		h := c.heapGet(initKey)
		sl := r.F[0]
		c.heapSet(initKey, c.em.define("Hin", c.em.keySort(initKey), "(store "+h+" "+sl.T[0]+" ((as const (Array Int Bool)) false))"))
		root.windows = append(root.windows, window{sl: sl, err: r.F[1], reach: c.reach[c.curB], pos: c.curPos})
	}
}

type window struct {
	sl    *Val
	err   *Val
	reach string
	pos   token.Pos
}

// initObligations: at each return with a nil error every window obtained on the path is fully written.
func (c *fnCtx) initObligations() {
	if !c.initOn() || c.mute {
		return
	}
	for ri, r := range c.rets {
		// which result is the error
		errNil := "true"
		if n := len(r.vals); n > 0 {
			last := r.vals[n-1]
			if last.K == KIface {
				errNil = "(= " + last.T[0] + " 0)"
			}
		}
		saved := c.st
		c.st = r.st.clone()
		c.em.regKey(initKey, "Bool", true)
		h := c.heapGet(initKey)
		c.st = saved
		for wi, w := range c.windows {
			cond := fmt.Sprintf("(forall ((k Int)) (=> (and (<= 0 k) (< k %s)) (select (select %s %s) (+ %s k))))", w.sl.T[2], h, w.sl.T[0], w.sl.T[1])
			guard := fmt.Sprintf("(and %s %s %s (= %s 0))", r.reach, w.reach, errNil, w.err.T[0])
			o := &Obl{Class: "init", Fn: c.fnName(), Pos: c.eng.prog.Fset.Position(w.pos), Text: "window fully written", Guard: guard, Cond: cond}
			o.Name = fmt.Sprintf("%s#init:win%d/ret%d", o.Fn, wi, ri)
			c.obls = append(c.obls, o)
		}
	}
}

// ---- PacketBuilder typestate (C01 / C03) ------------------------------------------------------

const pbKey = "ghost:pb"

func (c *fnCtx) pbGet(i int) string {
	c.em.regKey(pbKey, "Int", false)
	return fmt.Sprintf("(select %s %d)", c.heapGet(pbKey), i)
}
func (c *fnCtx) pbSet(i int, v string) {
	c.upd(pbKey, "", "Int", false, "", fmt.Sprint(i), v)
}

// slots: 0 = NextDecoder/tail done, 1 = layer added, 2 = error layer set
func (c *fnCtx) pbEvent(in ssa.Instruction, name string, cc *ssa.CallCommon, args []*Val) {
	g := c.ghostCfg()
	if g == nil || g.pb == nil || !c.eng.wantClass("typestate") {
		return
	}
	root := c.root()
	pos := in.Pos()
	switch name {
	case "AddLayer":
		root.addOblAt(c, "typestate", pos, "(and (= "+c.pbGet(0)+" 0) (= "+c.pbGet(2)+" 0))", "AddLayer before NextDecoder / no layer after error layer")
		c.pbSet(1, "1")
	case "SetLinkLayer", "SetNetworkLayer", "SetTransportLayer", "SetApplicationLayer":
		root.addOblAt(c, "typestate", pos, "(= "+c.pbGet(0)+" 0)", name+" before NextDecoder")
	case "SetErrorLayer":
		c.pbSet(2, "1")
	case "NextDecoder":
		root.addOblAt(c, "typestate", pos, "(and (= "+c.pbGet(0)+" 0) (= "+c.pbGet(2)+" 0))", "at most one NextDecoder, none after an error layer")
		c.pbSet(0, "1")
		if ci, ok := in.(*ssa.Call); ok && c.inlineOf == nil {
			if !tailUse(ci) {
				root.addOblAt(c, "typestate", pos, "false", "result of NextDecoder is the decoder's result")
			}
		}
	}
}

// tailUse: the call's value flows only into return instructions (possibly through phis).
func tailUse(ci *ssa.Call) bool {
	seen := map[ssa.Value]bool{}
	var ok func(v ssa.Value) bool
	ok = func(v ssa.Value) bool {
		if seen[v] {
			return true
		}
		seen[v] = true
		refs := v.Referrers()
		if refs == nil {
			return false
		}
		for _, r := range *refs {
			switch x := r.(type) {
			case *ssa.Return:
			case *ssa.Phi:
				if !ok(x) {
					return false
				}
			case *ssa.DebugRef:
			default:
				return false
			}
		}
		return true
	}
	return ok(ci)
}

var _ = types.Typ
var _ = strings.TrimSpace
