package main

import (
	"fmt"
	"go/token"
	"go/types"
	"strconv"
	"strings"

	"golang.org/x/tools/go/ssa"
)

// Property-specific ghost layers hooked into the translator:
//   frame-in   : the decoder input array is never written (C02) / never depends on capacity (C04)
//   frame-glob : no store to package-level state outside init (C02)
//   init       : every byte handed out by PrependBytes/AppendBytes is written before a nil-error return (C07)
//   typestate  : PacketBuilder protocol events (C01/C03)

type readEvent struct {
	buf      *Val
	contents string
}

type pbEvent struct {
	kind  string
	pos   token.Pos
	reach string
}

type ghostCfg struct {
	inputArr  string // array id of the decoder input, "" when not tracked
	inputName string
	trackInit bool
	pb        ssa.Value // the PacketBuilder parameter
	noGlobal  bool
	readOnly  bool // accessor / renderer: nothing that existed before the call may be written
}

func rootOfAddr(v ssa.Value) ssa.Value {
	for {
		switch x := v.(type) {
		case *ssa.FieldAddr:
			v = x.X
		case *ssa.IndexAddr:
			v = x.X
		default:
			return v
		}
	}
}

// frameCheck is called for every Store.
func (c *fnCtx) frameCheck(addr ssa.Value, pos token.Pos) {
	if c.mute && c.inlineOf == nil {
		return
	}
	g := c.ghostCfg()
	if g == nil {
		return
	}
	if g.noGlobal && c.eng.wantClass("frame-glob") {
		if gl, ok := rootOfAddr(addr).(*ssa.Global); ok {
			c.root().addOblAt(c, "frame-glob", pos, "false", "store to package variable "+gl.Name())
		}
	}
	if g.inputArr != "" && c.eng.wantClass("frame-in") {
		p := c.val(addr)
		if p.P != nil && p.P.Arr != "" {
			c.root().addOblAt(c, "frame-in", pos, "(not (= "+p.P.Arr+" "+g.inputArr+"))", "")
		}
	}
	if g.readOnly && c.eng.wantClass("frame-ro") {
		p := c.val(addr)
		tgt := p.T[0]
		if p.P != nil && p.P.Arr != "" {
			tgt = p.P.Arr
		} else if p.P != nil && !p.P.Op {
			tgt = p.P.Idx
		}
		if _, isAlloc := rootOfAddr(addr).(*ssa.Alloc); !isAlloc {
			c.root().addOblAt(c, "frame-ro", pos, "(> (owner "+tgt+") "+c.em.wm0+")", "")
		}
	}
}

func (c *fnCtx) root() *fnCtx {
	r := c
	for r.inlineOf != nil {
		r = r.inlineOf
	}
	return r
}

func (c *fnCtx) ghostCfg() *ghostCfg { return c.root().gcfg }

// addOblAt adds an obligation to the root context guarded by the reach predicate of the (possibly inlined) site.
func (r *fnCtx) addOblAt(site *fnCtx, class string, pos token.Pos, cond, text string) {
	if r.mute {
		return
	}
	if text == "" {
		text = r.eng.srcText(pos)
	}
	if site != r {
		text = site.eng.fnKey(site.f) + ":" + text
	}
	o := &Obl{Class: class, Fn: r.fnName(), Pos: r.eng.prog.Fset.Position(pos), Text: text, Guard: site.reach[site.curB], Cond: cond}
	key := class + ":" + text
	n := r.occ[key]
	r.occ[key] = n + 1
	o.Name = fmt.Sprintf("%s#%s:%s/%d", o.Fn, class, shortText(text), n)
	r.obls = append(r.obls, o)
}

func (c *fnCtx) appendFrame(in ssa.Instruction, cc *ssa.CallCommon, s *Val, inplace, tlen string) {
	if g := c.ghostCfg(); g != nil && g.readOnly && c.eng.wantClass("frame-ro") && !(c.mute && c.inlineOf == nil) {
		c.root().addOblAt(c, "frame-ro", in.Pos(), fmt.Sprintf("(not (and %s (> %s 0) (<= (owner %s) %s)))", inplace, tlen, s.T[0], c.em.wm0), "")
	}
	g := c.ghostCfg()
	if g == nil || g.inputArr == "" || !c.eng.wantClass("frame-in") {
		return
	}
	c.root().addOblAt(c, "frame-in", in.Pos(), fmt.Sprintf("(not (and %s (> %s 0) (= %s %s)))", inplace, tlen, s.T[0], g.inputArr), "")
}

func (c *fnCtx) copyFrame(in ssa.Instruction, cc *ssa.CallCommon, d *Val, n string) {
	if g := c.ghostCfg(); g != nil && g.readOnly && c.eng.wantClass("frame-ro") && !(c.mute && c.inlineOf == nil) {
		c.root().addOblAt(c, "frame-ro", in.Pos(), fmt.Sprintf("(not (and (> %s 0) (<= (owner %s) %s)))", n, d.T[0], c.em.wm0), "")
	}
	g := c.ghostCfg()
	if g == nil || g.inputArr == "" || !c.eng.wantClass("frame-in") {
		return
	}
	c.root().addOblAt(c, "frame-in", in.Pos(), fmt.Sprintf("(not (and (> %s 0) (= %s %s)))", n, d.T[0], g.inputArr), "")
}

func (c *fnCtx) writeFrame(in ssa.Instruction, s *Val, n string) {
	if g := c.ghostCfg(); g != nil && g.readOnly && c.eng.wantClass("frame-ro") && !(c.mute && c.inlineOf == nil) {
		c.root().addOblAt(c, "frame-ro", in.Pos(), fmt.Sprintf("(not (and (> %s 0) (<= (owner %s) %s)))", n, s.T[0], c.em.wm0), "")
	}
	g := c.ghostCfg()
	if g == nil || g.inputArr == "" || !c.eng.wantClass("frame-in") {
		return
	}
	c.root().addOblAt(c, "frame-in", in.Pos(), fmt.Sprintf("(not (and (> %s 0) (= %s %s)))", n, s.T[0], g.inputArr), "")
}

// capCheck: behaviour must not depend on spare capacity of the input (re-slicing input beyond len).
func (c *fnCtx) capCheck(in *ssa.Slice, s *Val, hi string) {
	g := c.ghostCfg()
	if g == nil || g.inputArr == "" || !c.eng.wantClass("cap") || in.High == nil {
		return
	}
	c.root().addOblAt(c, "cap", in.Pos(), fmt.Sprintf("(=> (= %s %s) (<= %s %s))", s.T[0], g.inputArr, hi, s.T[2]), "")
}

// allocCheck: allocation size bounds (C15) — filled by alloc contracts.
func (c *fnCtx) allocCheck(in *ssa.MakeSlice, n string) {
	if c.mute || !c.eng.wantClass("alloc") {
		return
	}
	b := c.eng.allocBound(c, in)
	if b == "" {
		return
	}
	c.addObl("alloc", in.Pos(), "(<= "+n+" "+b+")", "")
}

func (e *Engine) allocBound(c *fnCtx, in *ssa.MakeSlice) string { return "" }

// ---- init ghost (C07) -------------------------------------------------------------------------

const initKey = "ghost:init"

func (c *fnCtx) initOn() bool {
	g := c.ghostCfg()
	return g != nil && g.trackInit
}

func (c *fnCtx) initMark(arr, idx string) {
	if !c.initOn() {
		return
	}
	c.em.regKey(initKey, "Bool", true)
	c.upd(initKey, "", "Bool", true, arr, idx, "true")
}

func (c *fnCtx) initRange(s *Val, lo, n string) {
	if !c.initOn() {
		return
	}
	c.em.regKey(initKey, "Bool", true)
	h := c.heapGet(initKey)
	a2 := c.em.fresh("Ainit")
	c.em.decl(a2, "(Array Int Bool)")
	c.em.assert(fmt.Sprintf("(forall ((k Int)) (! (= (select %s k) (or (select (select %s %s) k) (and (<= (+ %s %s) k) (< k (+ %s %s %s))))) :pattern ((select %s k))))",
		a2, h, s.T[0], s.T[1], lo, s.T[1], lo, n, a2))
	c.heapSet(initKey, c.em.define("Hin", c.em.keySort(initKey), "(store "+h+" "+s.T[0]+" "+a2+")"))
}

func (c *fnCtx) initCopy(d *Val, n string) { c.initRange(d, "0", n) }

func (c *fnCtx) initNote(r *Val, in ssa.Instruction) {}

func (c *fnCtx) sbEvent(name, n string, r *Val) {
	if !c.initOn() {
		return
	}
	root := c.root()
	switch name {
	case "PrependBytes", "AppendBytes":
		// fresh window: nothing initialised yet
		c.em.regKey(initKey, "Bool", true)
		h := c.heapGet(initKey)
		sl := r.F[0]
		c.heapSet(initKey, c.em.define("Hin", c.em.keySort(initKey), "(store "+h+" "+sl.T[0]+" ((as const (Array Int Bool)) false))"))
		root.windows = append(root.windows, window{sl: sl, err: r.F[1], reach: c.reach[c.curB], pos: c.curPos, block: c.curB, ctx: c})
	}
}

type window struct {
	sl    *Val
	err   *Val
	reach string
	pos   token.Pos
	block *ssa.BasicBlock
	ctx   *fnCtx
}

// initBackEdge: a window obtained inside a loop body belongs to one iteration (the loop is cut at its head, so no
// return of the function sees it): it has to be fully written when the iteration ends.
func (c *fnCtx) initBackEdge(li *loopInfo, from *ssa.BasicBlock, guard string) {
	if !c.initOn() || c.mute || c.inlineOf != nil {
		return
	}
	root := c.root()
	saved := c.st
	c.st = c.hout[from].clone()
	c.em.regKey(initKey, "Bool", true)
	h := c.heapGet(initKey)
	c.st = saved
	for wi, w := range root.windows {
		if w.ctx != c || w.block == nil || !li.blocks[w.block] {
			continue
		}
		inner := false
		for _, l2 := range c.loops {
			if l2 != li && l2.blocks[w.block] && li.blocks[l2.header] && l2.header != li.header {
				inner = true // obtained in a nested loop: checked at that loop's back edge
			}
		}
		if inner {
			continue
		}
		cond := fmt.Sprintf("(forall ((k Int)) (=> (and (<= 0 k) (< k %s)) (select (select %s %s) (+ %s k))))", w.sl.T[2], h, w.sl.T[0], w.sl.T[1])
		g := fmt.Sprintf("(and %s %s (= %s 0))", guard, w.reach, w.err.T[0])
		o := &Obl{Class: "init", Fn: c.fnName(), Pos: c.eng.prog.Fset.Position(w.pos), Text: "window obtained in the loop body fully written at the end of the iteration", Guard: g, Cond: cond}
		o.Name = fmt.Sprintf("%s#init:win%d/loop%d:back%d", o.Fn, wi, li.ord, from.Index)
		c.obls = append(c.obls, o)
	}
}

// initObligations: at each return with a nil error every window obtained on the path is fully written.
func (c *fnCtx) initObligations() {
	if !c.initOn() || c.mute {
		return
	}
	for ri, r := range c.rets {
		// which result is the error
		errNil := "true"
		if n := len(r.vals); n > 0 {
			last := r.vals[n-1]
			if last.K == KIface {
				errNil = "(= " + last.T[0] + " 0)"
			}
		}
		saved := c.st
		c.st = r.st.clone()
		c.em.regKey(initKey, "Bool", true)
		h := c.heapGet(initKey)
		c.st = saved
		for wi, w := range c.windows {
			cond := fmt.Sprintf("(forall ((k Int)) (=> (and (<= 0 k) (< k %s)) (select (select %s %s) (+ %s k))))", w.sl.T[2], h, w.sl.T[0], w.sl.T[1])
			guard := fmt.Sprintf("(and %s %s %s (= %s 0))", r.reach, w.reach, errNil, w.err.T[0])
			o := &Obl{Class: "init", Fn: c.fnName(), Pos: c.eng.prog.Fset.Position(w.pos), Text: "window fully written", Guard: guard, Cond: cond}
			o.Name = fmt.Sprintf("%s#init:win%d/%s", o.Fn, wi, c.retLabel(ri))
			c.obls = append(c.obls, o)
		}
	}
}

// ---- PacketBuilder typestate (C01 / C03) ------------------------------------------------------

const pbKey = "ghost:pb"

func (c *fnCtx) pbGet(i int) string {
	c.em.regKey(pbKey, "Int", false)
	return fmt.Sprintf("(select %s %d)", c.heapGet(pbKey), i)
}
func (c *fnCtx) pbSet(i int, v string) {
	c.upd(pbKey, "", "Int", false, "", fmt.Sprint(i), v)
}

// slots: 0 = NextDecoder/tail done, 1 = layer added, 2 = error layer set
func (c *fnCtx) pbEvent(in ssa.Instruction, name string, cc *ssa.CallCommon, args []*Val) {
	g := c.ghostCfg()
	if g == nil || g.pb == nil {
		return
	}
	root := c.root()
	pos := in.Pos()
	switch name {
	case "AddLayer":
		if len(cc.Args) > 0 {
			root.lastAdded = cc.Args[len(cc.Args)-1]
			root.lastAddedVal = args[len(args)-1]
		}
		root.addOblAt(c, "typestate", pos, "(= "+c.pbGet(0)+" 0)", "AddLayer before NextDecoder")
		root.addOblAt(c, "typestate-err", pos, "(= "+c.pbGet(2)+" 0)", "no layer added after an error layer")
		c.pbSet(1, "1")
	case "SetLinkLayer", "SetNetworkLayer", "SetTransportLayer", "SetApplicationLayer":
		root.addOblAt(c, "typestate", pos, "(= "+c.pbGet(0)+" 0)", name+" before NextDecoder")
	case "SetErrorLayer":
		c.pbSet(2, "1")
	case "NextDecoder":
		root.addOblAt(c, "typestate", pos, "(= "+c.pbGet(0)+" 0)", "at most one NextDecoder")
		root.addOblAt(c, "typestate-err", pos, "(= "+c.pbGet(2)+" 0)", "no NextDecoder after an error layer")
		if cc.IsInvoke() && cc.Method.Name() == "NextDecoder" {
			c.progressObl(in, pos)
		}
		c.pbSet(0, "1")
		if ci, ok := in.(*ssa.Call); ok && c.inlineOf == nil {
			if !tailUse(ci) {
				root.addOblAt(c, "typestate", pos, "false", "result of NextDecoder is the decoder's result")
			}
		}
	}
}

// tailUse: the call's value flows only into return instructions (possibly through phis).
func tailUse(ci *ssa.Call) bool {
	seen := map[ssa.Value]bool{}
	var ok func(v ssa.Value) bool
	ok = func(v ssa.Value) bool {
		if seen[v] {
			return true
		}
		seen[v] = true
		refs := v.Referrers()
		if refs == nil {
			return false
		}
		for _, r := range *refs {
			switch x := r.(type) {
			case *ssa.Return:
			case *ssa.Phi:
				if !ok(x) {
					return false
				}
			case *ssa.DebugRef:
			default:
				return false
			}
		}
		return true
	}
	return ok(ci)
}

var _ = types.Typ
var _ = strings.TrimSpace

// paramWrites: which slice-typed parameters a function may write through (syntactic, transitive over static
// in-module callees); nil result means unknown (treated as "may write every slice argument").
func (e *Engine) paramWrites(f *ssa.Function) map[int]bool {
	e.pwMu.Lock()
	if r, ok := e.pw[f]; ok {
		e.pwMu.Unlock()
		return r
	}
	e.pw[f] = map[int]bool{} // recursion guard: optimistic, fixed below
	e.pwMu.Unlock()
	if f.Blocks == nil {
		return nil
	}
	res := map[int]bool{}
	unknown := false
	// origin of a value: parameter index it is derived from by slicing / phi, or -1
	var origin func(v ssa.Value, depth int) int
	origin = func(v ssa.Value, depth int) int {
		if depth > 8 {
			return -2
		}
		switch x := v.(type) {
		case *ssa.Parameter:
			for i, p := range f.Params {
				if p == x {
					return i
				}
			}
		case *ssa.Slice:
			return origin(x.X, depth+1)
		case *ssa.Phi:
			o := -1
			for _, ed := range x.Edges {
				if ed == v {
					continue
				}
				oo := origin(ed, depth+1)
				if oo == -2 {
					return -2
				}
				if oo >= 0 {
					if o >= 0 && o != oo {
						return -2
					}
					o = oo
				}
			}
			return o
		case *ssa.UnOp:
			// loaded from memory: a field may alias a parameter's array (e.g. layer.Contents) -> unknown origin
			if _, isSl := x.Type().Underlying().(*types.Slice); isSl {
				return -3
			}
		case *ssa.Call, *ssa.Extract:
			if _, isSl := v.Type().Underlying().(*types.Slice); isSl {
				return -3
			}
		}
		return -1
	}
	mark := func(v ssa.Value) {
		switch o := origin(v, 0); {
		case o >= 0:
			res[o] = true
		case o == -2:
			unknown = true
		}
	}
	for _, b := range f.Blocks {
		for _, in := range b.Instrs {
			switch x := in.(type) {
			case *ssa.Store:
				if ia, ok := x.Addr.(*ssa.IndexAddr); ok {
					mark(ia.X)
				}
			case ssa.CallInstruction:
				cc := x.Common()
				if bi, ok := cc.Value.(*ssa.Builtin); ok {
					if bi.Name() == "copy" || bi.Name() == "append" || bi.Name() == "clear" {
						mark(cc.Args[0])
					}
					continue
				}
				if cc.IsInvoke() {
					for _, a := range cc.Args {
						if _, isSl := a.Type().Underlying().(*types.Slice); isSl && origin(a, 0) >= 0 {
							n := cc.Method.Name()
							if n == "Read" || n == "ReadFull" {
								mark(a)
							}
						}
					}
					continue
				}
				cal := cc.StaticCallee()
				if cal == nil {
					continue
				}
				var cw map[int]bool
				if e.isModule(cal) && cal.Blocks != nil {
					cw = e.paramWrites(cal)
				} else {
					name := cal.String()
					cw = map[int]bool{}
					if !pureExternal(name) && !knownReadOnlySliceUser(name) {
						for i := range cc.Args {
							cw[i] = true
						}
					}
				}
				for i, a := range cc.Args {
					if _, isSl := a.Type().Underlying().(*types.Slice); !isSl {
						continue
					}
					if cw == nil || cw[i] {
						mark(a)
					}
				}
			}
		}
	}
	if unknown {
		res = nil
	}
	e.pwMu.Lock()
	e.pw[f] = res
	e.pwMu.Unlock()
	return res
}

// callFrame: a call that may write through a slice argument must not receive (a window of) the decoder input.
func (c *fnCtx) callFrame(in ssa.Instruction, callee *ssa.Function, cc *ssa.CallCommon, args []*Val) {
	g := c.ghostCfg()
	if g == nil || (g.inputArr == "" && !g.readOnly) || (c.mute && c.inlineOf == nil) {
		return
	}
	var cw map[int]bool
	known := false
	if callee != nil && c.eng.isModule(callee) && callee.Blocks != nil {
		cw = c.eng.paramWrites(callee)
		known = cw != nil
	} else if callee != nil {
		name := callee.String()
		known = true
		cw = map[int]bool{}
		if !pureExternal(name) && !knownReadOnlySliceUser(name) && !strings.HasSuffix(name, "ndian).Uint16") && !strings.HasSuffix(name, "ndian).Uint32") && !strings.HasSuffix(name, "ndian).Uint64") {
			for i := range cc.Args {
				cw[i] = true
			}
		}
	}
	for i, a := range args {
		if a.K != KSlice || i >= len(cc.Args) {
			continue
		}
		if known && !cw[i] {
			continue
		}
		if g.inputArr != "" && c.eng.wantClass("frame-in") {
			c.root().addOblAt(c, "frame-in", in.Pos(), fmt.Sprintf("(not (and (> %s 0) (= %s %s)))", a.T[2], a.T[0], g.inputArr), "")
		}
		if g.readOnly && c.eng.wantClass("frame-ro") {
			c.root().addOblAt(c, "frame-ro", in.Pos(), fmt.Sprintf("(not (and (> %s 0) (<= (owner %s) %s)))", a.T[3], a.T[0], c.em.wm0), "")
		}
	}
}

// pbUses: PacketBuilder methods a function may invoke (transitively through static in-module callees that
// receive a PacketBuilder). "*" means unknown (the builder escapes into something we cannot follow).
func (e *Engine) pbUses(f *ssa.Function, depth int) map[string]bool {
	e.pwMu.Lock()
	if r, ok := e.pbU[f]; ok {
		e.pwMu.Unlock()
		return r
	}
	e.pbU[f] = map[string]bool{}
	e.pwMu.Unlock()
	res := map[string]bool{}
	if f.Blocks == nil || depth > 6 {
		res["*"] = true
		return res
	}
	for _, b := range f.Blocks {
		for _, in := range b.Instrs {
			ci, ok := in.(ssa.CallInstruction)
			if !ok {
				continue
			}
			cc := ci.Common()
			if cc.IsInvoke() {
				if strings.HasSuffix(cc.Value.Type().String(), "gopacket.PacketBuilder") {
					res[cc.Method.Name()] = true
				} else {
					for _, a := range cc.Args {
						if strings.HasSuffix(a.Type().String(), "gopacket.PacketBuilder") {
							// e.g. Decoder.Decode(data, p): a decoder runs on the builder
							res["NextDecoder"] = true
						}
					}
				}
				continue
			}
			passes := false
			for _, a := range cc.Args {
				if strings.HasSuffix(a.Type().String(), "gopacket.PacketBuilder") {
					passes = true
				}
			}
			if !passes {
				continue
			}
			cal := cc.StaticCallee()
			if cal == nil || !e.isModule(cal) {
				res["*"] = true
				continue
			}
			for k := range e.pbUses(cal, depth+1) {
				res[k] = true
			}
		}
	}
	e.pwMu.Lock()
	e.pbU[f] = res
	e.pwMu.Unlock()
	return res
}

func pbStructural(u map[string]bool) bool {
	return u["*"] || u["NextDecoder"] || u["AddLayer"] || u["SetErrorLayer"] || u["SetLinkLayer"] || u["SetNetworkLayer"] || u["SetTransportLayer"] || u["SetApplicationLayer"]
}

// progressObl: at p.NextDecoder(..) the payload handed to the next decoder is strictly shorter than this
// decoder's input (or empty), so a chain of decoders does at most len(data) steps (C01 "bounded time").
func (c *fnCtx) progressObl(in ssa.Instruction, pos token.Pos) {
	root := c.root()
	if !c.eng.wantClass("progress") || root.gcfg == nil {
		return
	}
	var dataLen string
	for i, p := range root.f.Params {
		if isByteSlice(p.Type()) && i < len(root.params) {
			dataLen = root.params[i].T[2]
			break
		}
	}
	if dataLen == "" || root.lastAdded == nil {
		root.addOblAt(c, "progress", pos, "false", "payload of the added layer is shorter than the input (no layer / input found)")
		return
	}
	// the layer value is an interface holding a *T (known statically, or by its constant dynamic type after
	// inlining) whose LayerPayload() returns BaseLayer.Payload
	var pt *types.Pointer
	var ptrVal *Val
	if mi, ok := root.lastAdded.(*ssa.MakeInterface); ok {
		if p, ok := mi.X.Type().Underlying().(*types.Pointer); ok {
			pt, ptrVal = p, c.val(mi.X)
		}
	}
	if pt == nil && root.lastAddedVal != nil && root.lastAddedVal.K == KIface {
		if id, err := strconv.Atoi(root.lastAddedVal.T[0]); err == nil && id > 0 {
			c.eng.idMu.Lock()
			dt := c.eng.typeByID[id]
			c.eng.idMu.Unlock()
			if dt != nil {
				if p, ok := dt.Underlying().(*types.Pointer); ok {
					pt, ptrVal = p, &Val{K: KPtr, T: []string{root.lastAddedVal.T[1]}}
				}
			}
		}
	}
	if pt == nil {
		root.addOblAt(c, "progress", pos, "false", "payload of the added layer is shorter than the input (layer of unknown type)")
		return
	}
	ev := &evalEnv{c: c, st: c.st, old: c.st, bound: map[string]tv{}, pkg: c.pkgOf(root.f)}
	var plen string
	func() {
		defer func() {
			if r := recover(); r != nil {
				if _, isE := r.(evalErr); !isE {
					panic(r)
				}
			}
		}()
		saved := c.st
		pl := ev.selField(tv{v: ptrVal, t: pt}, "Payload")
		c.st = saved
		if pl.v.K == KSlice {
			plen = pl.v.T[2]
		}
	}()
	if plen == "" {
		root.addOblAt(c, "progress", pos, "false", "payload of the added layer is shorter than the input (no Payload field)")
		return
	}
	root.addOblAt(c, "progress", pos, fmt.Sprintf("(or (= %s 0) (< %s %s))", plen, plen, dataLen), "payload of the added layer is shorter than the input")
}

// resetObligations (C05): at every return with a nil error each scalar field of the receiver struct, including
// fields of structs nested by value, has been assigned during this call (so no state of a previous packet
// survives). Fields named in the contract's "keeps" clause are caller-owned and exempt.
func (c *fnCtx) resetObligations() {
	if c.resetRecv == "" || c.mute {
		return
	}
	pt, ok := c.f.Params[0].Type().Underlying().(*types.Pointer)
	if !ok {
		return
	}
	keep := map[string]bool{}
	if c.ct != nil {
		for _, k := range c.ct.Keeps {
			keep[k] = true
		}
	}
	type rkey = struct{ key, name string }
	var keys []rkey
	nonzero := map[string][2]string{} // key -> (heap key, kind) of a component that is non-zero exactly for a visible value (top-level fields only)
	var walk func(t types.Type, prefix string, depth int)
	walk = func(t types.Type, prefix string, depth int) {
		st, ok := t.Underlying().(*types.Struct)
		if !ok || depth > 4 {
			return
		}
		for i := 0; i < st.NumFields(); i++ {
			f := st.Field(i)
			name := prefix + f.Name()
			if keep[name] || keep[f.Name()] {
				continue
			}
			switch kindOf(f.Type()) {
			case KStruct:
				walk(f.Type(), name+".", depth+1)
			case KArr:
				// fixed arrays are written element-wise: not tracked
			default:
				comps := scalarComponents(f.Type())
				if len(comps) > 0 {
					k := fieldKey(t, f) + comps[len(comps)-1].suf
					keys = append(keys, rkey{k, name})
					if depth == 0 {
						switch kindOf(f.Type()) {
						case KSlice, KStr:
							nonzero[k] = [2]string{fieldKey(t, f) + "#len", "pos"}
						case KBool:
							nonzero[k] = [2]string{fieldKey(t, f), "bool"}
						case KIface:
							nonzero[k] = [2]string{fieldKey(t, f) + "#ty", "nz"}
						case KInt, KPtr:
							nonzero[k] = [2]string{fieldKey(t, f), "nz"}
						}
					}
				}
			}
		}
	}
	walk(pt.Elem(), "", 0)
	// a field that no path of this function (or of its callees) ever writes keeps its initial value through any
	// sequence of decodes into the same object, exactly as in a fresh object: nothing to prove for it
	if ms := c.eng.fnMods(c.f); ms != nil && !ms.Top {
		var written []rkey
		for _, k := range keys {
			if ms.Keys[k.key] || ms.Fresh[k.key] {
				written = append(written, k)
			}
		}
		keys = written
	}
	// witness of stale state: some return (successful or not) at which the field has been assigned
	witness := map[string]string{}
	for _, k := range keys {
		gk := "ghost:w:" + k.key
		c.em.regKey(gk, "Int", false)
		var alts []string
		for _, r := range c.rets {
			saved := c.st
			c.st = r.st.clone()
			h := c.heapGet(gk)
			vis := "true"
			if nz, ok := nonzero[k.key]; ok && c.em.keyKnown(nz[0]) {
				hv := "(select " + c.heapGet(nz[0]) + " " + c.resetRecv + ")"
				switch nz[1] {
				case "pos":
					vis = "(> " + hv + " 0)"
				case "bool":
					vis = hv
				default:
					vis = "(not (= " + hv + " 0))"
				}
			}
			c.st = saved
			alts = append(alts, "(and "+r.reach+" (= (select "+h+" 0) 1) "+vis+")")
		}
		if len(alts) > 0 {
			witness[k.key] = "(or " + strings.Join(alts, " ") + ")"
		}
	}
	for ri, r := range c.rets {
		errNil := "true"
		if n := len(r.vals); n > 0 && r.vals[n-1].K == KIface {
			errNil = "(= " + r.vals[n-1].T[0] + " 0)"
		}
		for _, k := range keys {
			gk := "ghost:w:" + k.key
			c.em.regKey(gk, "Int", false)
			saved := c.st
			c.st = r.st.clone()
			h := c.heapGet(gk)
			c.st = saved
			o := &Obl{Class: "reset", Fn: c.fnName(), Pos: c.eng.prog.Fset.Position(r.pos), Text: "field " + k.name + " is assigned before a successful return", Guard: "(and " + r.reach + " " + errNil + ")", Cond: "(= (select " + h + " 0) 1)"}
			o.Name = fmt.Sprintf("%s#reset:%s/%s", o.Fn, k.name, c.retLabel(ri))
			o.Witness = witness[k.key]
			c.obls = append(c.obls, o)
		}
	}
}
