package main

import (
	"fmt"
	"go/ast"
	"go/types"
	"sort"
	"strings"

	"golang.org/x/tools/go/ssa"
)

func resultNames(sig *types.Signature) []string {
	var ns []string
	rs := sig.Results()
	for i := 0; i < rs.Len(); i++ {
		n := rs.At(i).Name()
		if n == "" || n == "_" {
			if rs.Len() == 1 {
				n = "result"
			} else {
				n = fmt.Sprintf("result%d", i)
			}
		}
		ns = append(ns, n)
	}
	return ns
}

func (c *fnCtx) pkgOf(f *ssa.Function) *types.Package {
	if f.Pkg != nil {
		return f.Pkg.Pkg
	}
	if f.Parent() != nil {
		return c.pkgOf(f.Parent())
	}
	if f.Origin() != nil {
		return c.pkgOf(f.Origin())
	}
	return nil
}

// contractEnv builds the evaluation environment of a function contract.
func (c *fnCtx) contractEnv(f *ssa.Function, args []*Val, results []*Val, st, old *State) *evalEnv {
	rn := resultNames(f.Signature)
	var extNames []string
	extRecv := false
	if ct := c.eng.externCts[f.String()]; ct != nil {
		extNames = ct.ParamNames
		extRecv = ct.HasRecv && f.Signature.Recv() != nil
	}
	lk := func(name string) (tv, bool) {
		// entry_<param> is the parameter itself in a function contract (args are the values at the call / on entry)
		name = strings.TrimPrefix(name, "entry_")
		for i, p := range f.Params {
			if p.Name() == name && i < len(args) {
				return tv{v: args[i], t: p.Type()}, true
			}
		}
		for i, n := range extNames {
			if n != name || i >= len(args) {
				continue
			}
			if extRecv {
				if i == 0 {
					return tv{v: args[0], t: f.Signature.Recv().Type()}, true
				}
				if i-1 < f.Signature.Params().Len() {
					return tv{v: args[i], t: f.Signature.Params().At(i - 1).Type()}, true
				}
				continue
			}
			if i < f.Signature.Params().Len() {
				return tv{v: args[i], t: f.Signature.Params().At(i).Type()}, true
			}
		}
		for i, n := range rn {
			if n == name && i < len(results) && results[i] != nil {
				return tv{v: results[i], t: f.Signature.Results().At(i).Type()}, true
			}
		}
		if strings.HasPrefix(name, "result") && len(name) > 6 {
			// positional alias resultK, also for named results
			var k int
			if _, err := fmt.Sscanf(name[6:], "%d", &k); err == nil && k < len(results) && results[k] != nil && k < f.Signature.Results().Len() {
				return tv{v: results[k], t: f.Signature.Results().At(k).Type()}, true
			}
		}
		if name == "result" && len(results) >= 1 && results[0] != nil && len(rn) >= 1 {
			return tv{v: results[0], t: f.Signature.Results().At(0).Type()}, true
		}
		return tv{}, false
	}
	return &evalEnv{c: c, lookup: lk, st: st, old: old, bound: map[string]tv{}, pkg: c.pkgOf(f)}
}

// safeEval evaluates a contract clause, converting evaluation errors into a reported engine error.
func (c *fnCtx) safeEval(env *evalEnv, e *Expr) (res string, err error) {
	defer func() {
		if r := recover(); r != nil {
			if ee, ok := r.(evalErr); ok {
				err = fmt.Errorf("contract clause %q: %s", e.Src, ee.msg)
				return
			}
			panic(r)
		}
	}()
	saved := c.st
	c.st = env.st
	defer func() { c.st = saved }()
	return env.evalBool(e), nil
}

func unpackResults(r *Val, rt types.Type) []*Val {
	if r == nil {
		return nil
	}
	if _, ok := rt.(*types.Tuple); ok {
		return r.F
	}
	return []*Val{r}
}

// applyContract: modular call — check requires, havoc modifies, assume ensures.
func (c *fnCtx) applyContract(in ssa.Instruction, callee *ssa.Function, ct *Contract, cc *ssa.CallCommon, args []*Val, rt types.Type) *Val {
	pre := c.st.clone()
	env := c.contractEnv(callee, args, nil, c.st, c.st)
	short := c.eng.fnKey(callee)
	for i, rq := range ct.Requires {
		f, err := c.safeEval(env, rq)
		if err != nil {
			c.eng.engineError(err)
			continue
		}
		o := c.addObl("pre", in.Pos(), f, fmt.Sprintf("%s requires[%d] %s", short, i, rq.Src))
		_ = o
	}
	if ct.PanicsIff != nil {
		f, err := c.safeEval(env, ct.PanicsIff)
		if err != nil {
			c.eng.engineError(err)
		} else {
			c.addObl("pre", in.Pos(), "(not "+f+")", fmt.Sprintf("%s panics_iff %s", short, ct.PanicsIff.Src))
		}
	}
	c.passedPtrEffects(cc, args)
	if ct.Modifies != nil {
		// contents(p): only the window of the slice argument p is overwritten (with arbitrary bytes)
		for _, pat := range ct.Modifies {
			if strings.HasPrefix(pat, "contents(") && strings.HasSuffix(pat, ")") {
				pn := pat[len("contents(") : len(pat)-1]
				if tvv, ok := env.lookup(pn); ok && tvv.v != nil && tvv.v.K == KSlice {
					c.readInto(in, tvv.v)
				} else {
					c.eng.engineError(fmt.Errorf("%s: modifies %s: no such slice parameter", ct.Key, pat))
				}
			}
		}
		c.havocSet(c.eng.contractMods(callee, ct))
	} else if callee.Blocks == nil {
		c.havocSet(c.eng.externalMods(callee, cc))
	} else {
		c.havocSet(c.eng.fnMods(callee))
	}
	if gk := ct.ghostKeys(); len(gk) > 0 {
		gm := newModSet()
		for _, g := range gk {
			gm.Keys[g] = true
		}
		c.havocSet(gm)
	}
	r := c.result(rt, "cr")
	results := unpackResults(r, rt)
	post := c.contractEnv(callee, args, results, c.st, pre)
	for _, en := range ct.Ensures {
		f, err := c.safeEval(post, en)
		if err != nil {
			c.eng.engineError(err)
			continue
		}
		c.em.assert("(=> " + c.reach[c.curB] + " " + f + ")")
	}
	c.eng.noteContractUse(short)
	if ct.Trusted {
		c.eng.noteContractUse("ASSUMED " + ct.Key + " (" + ct.Header + ")")
	}
	return r
}

// checkPost emits post-condition and frame obligations at every return of the function under verification.
func (c *fnCtx) checkPost(args []*Val) {
	ct := c.ct
	if ct == nil || c.mute {
		return
	}
	for ri, r := range c.rets {
		env := c.contractEnv(c.f, args, r.vals, r.st, c.entry)
		for i, en := range ct.Ensures {
			saved := c.st
			c.st = r.st.clone()
			env.st = c.st
			f, err := c.safeEval(env, en)
			c.st = saved
			if err != nil {
				c.eng.engineError(err)
				continue
			}
			o := &Obl{Class: "post", Fn: c.fnName(), Pos: c.eng.prog.Fset.Position(r.pos), Text: en.Src, Guard: r.reach, Cond: f}
			o.Name = fmt.Sprintf("%s#post:%s/%s", o.Fn, shortText(fmt.Sprintf("e%d %s", i, en.Src)), c.retLabel(ri))
			c.obls = append(c.obls, o)
		}
		if ct.Modifies != nil {
			c.frameObls(ri, r)
		}
	}
}

// frameObls: every heap key outside the modifies clause keeps its entry contents on pre-existing objects.
func (c *fnCtx) frameObls(ri int, r retInfo) {
	allowed := c.eng.contractMods(c.f, c.ct)
	if allowed.Top {
		return
	}
	if r.st.epoch != c.entry.epoch {
		// some path to this return went through a call with unknown effects (whole heap havocked): the written
		// modifies clause cannot be established key by key
		o := &Obl{Class: "frame", Fn: c.fnName(), Pos: c.eng.prog.Fset.Position(r.pos), Text: "writes stay inside the modifies clause (a call with unknown effects is on the path)", Guard: r.reach, Cond: "false"}
		o.Name = fmt.Sprintf("%s#frame:unknown-effects/%s", o.Fn, c.retLabel(ri))
		c.obls = append(c.obls, o)
	}
	var keys []string
	for k := range r.st.m {
		keys = append(keys, k)
	}
	sort.Strings(keys)
	for _, k := range keys {
		if k == "$wm" || allowed.Keys[k] || strings.HasPrefix(k, "ghost:") {
			continue
		}
		saved := c.st
		c.st = c.entry
		h0 := c.heapGet(k)
		c.st = saved
		h1 := r.st.m[k]
		if h0 == h1 {
			continue
		}
		if r.st.epoch != c.entry.epoch && strings.HasPrefix(h1, fmt.Sprintf("H%d_", r.st.epoch)) {
			// key havocked wholesale
		}
		cond := fmt.Sprintf("(forall ((r Int)) (=> (<= (owner r) %s) (= (select %s r) (select %s r))))", c.em.wm0, h1, h0)
		o := &Obl{Class: "frame", Fn: c.fnName(), Pos: c.eng.prog.Fset.Position(r.pos), Text: "unchanged " + k, Guard: r.reach, Cond: cond}
		o.Name = fmt.Sprintf("%s#frame:%s/%s", o.Fn, shortText(k), c.retLabel(ri))
		c.obls = append(c.obls, o)
	}
}

// ---- loop clause evaluation -------------------------------------------------------------------

func (c *fnCtx) loopLookup(li *loopInfo, env *loopEnv) func(name string) (tv, bool) {
	f := c.f
	return func(name string) (tv, bool) {
		for phi, v := range env.phi {
			if phi.Comment == name && v != nil {
				return tv{v: v, t: phi.Type()}, true
			}
		}
		for i, p := range f.Params {
			if p.Name() == name && i < len(c.params) {
				return tv{v: c.params[i], t: p.Type()}, true
			}
		}
		// address-taken locals (named results, captured variables)
		for _, b := range f.Blocks {
			for _, in := range b.Instrs {
				if a, ok := in.(*ssa.Alloc); ok && a.Comment == name {
					if pv, ok := c.vals[a]; ok {
						el := a.Type().Underlying().(*types.Pointer).Elem()
						saved := c.st
						c.st = env.st
						v := c.load(pv, el)
						c.st = saved
						return tv{v: v, t: el}, true
					}
				}
			}
		}
		// plain locals through debug references: last definition dominating the header
		var best ssa.Value
		for _, b := range f.Blocks {
			if li != nil && (li.blocks[b] || !b.Dominates(li.header)) {
				continue
			}
			for _, in := range b.Instrs {
				if d, ok := in.(*ssa.DebugRef); ok && !d.IsAddr {
					if id, ok := d.Expr.(*ast.Ident); ok && id.Name == name {
						best = d.X
					}
				}
			}
		}
		if best != nil {
			return tv{v: c.val(best), t: best.Type()}, true
		}
		return tv{}, false
	}
}

func (c *fnCtx) loopEvalEnv(li *loopInfo, env *loopEnv) *evalEnv {
	st := env.st
	if st == nil {
		st = c.st
	}
	ev := &evalEnv{c: c, lookup: c.loopLookup(li, env), st: st, old: c.entry, bound: map[string]tv{}, pkg: c.pkgOf(c.f)}
	// old(x) of a loop variable denotes its value on loop entry; of parameters, the parameter
	entryEnv := &loopEnv{phi: env.entry, st: c.entry}
	ev.oldLk = c.loopLookup(li, entryEnv)
	return ev
}

func (c *fnCtx) evalLoopExpr(e *Expr, li *loopInfo, env *loopEnv) string {
	ev := c.loopEvalEnv(li, env)
	f, err := c.safeEval(ev, e)
	if err != nil {
		c.eng.engineError(fmt.Errorf("%s loop %d: %v", c.fnName(), li.ord, err))
		return "true"
	}
	return f
}

func (c *fnCtx) evalLoopTerm(e *Expr, li *loopInfo, env *loopEnv) (res string) {
	ev := c.loopEvalEnv(li, env)
	defer func() {
		if r := recover(); r != nil {
			if ee, ok := r.(evalErr); ok {
				c.eng.engineError(fmt.Errorf("%s loop %d decreases: %s", c.fnName(), li.ord, ee.msg))
				res = "0"
				return
			}
			panic(r)
		}
	}()
	saved := c.st
	c.st = ev.st
	defer func() { c.st = saved }()
	return ev.evalInt(e)
}

// localLookup resolves a source-level variable name at the current program point: parameters, the closest
// dominating phi or debug reference, or an address-taken local.
func (c *fnCtx) localLookup(cur ssa.Instruction) func(name string) (tv, bool) {
	f := c.f
	return func(name string) (tv, bool) {
		// entry_<param>: the value the parameter had on entry (parameters are mutable; the plain name denotes the
		// current value at the anchor)
		if strings.HasPrefix(name, "entry_") {
			for i, p := range f.Params {
				if p.Name() == name[len("entry_"):] && i < len(c.params) {
					return tv{v: c.params[i], t: p.Type()}, true
				}
			}
		}
		blk := cur.Block()
		first := true
		for b := blk; b != nil; b = b.Idom() {
			var best ssa.Value
			for _, in := range b.Instrs {
				if first && in == cur {
					break
				}
				switch x := in.(type) {
				case *ssa.Phi:
					if x.Comment == name {
						best = x
					}
				case *ssa.DebugRef:
					if id, ok := x.Expr.(*ast.Ident); ok && id.Name == name && !x.IsAddr {
						best = x.X
					}
				}
			}
			first = false
			if best != nil {
				return tv{v: c.val(best), t: best.Type()}, true
			}
		}
		for i, p := range f.Params {
			if p.Name() == name && i < len(c.params) {
				return tv{v: c.params[i], t: p.Type()}, true
			}
		}
		for _, b := range f.Blocks {
			for _, in := range b.Instrs {
				if a, ok := in.(*ssa.Alloc); ok && a.Comment == name {
					if pv, ok := c.vals[a]; ok {
						el := a.Type().Underlying().(*types.Pointer).Elem()
						return tv{v: c.load(pv, el), t: el}, true
					}
				}
			}
		}
		return tv{}, false
	}
}

// anchoredAsserts evaluates the contract's "at <callee> <n>: assert e" clauses for the call being translated.
func (c *fnCtx) anchoredAsserts(in ssa.Instruction, name string, cc *ssa.CallCommon, args []*Val) {
	if c.ct == nil || len(c.ct.Asserts) == 0 || c.mute {
		return
	}
	if c.callOrd == nil {
		c.callOrd = map[string]int{}
	}
	ord := c.callOrd[name]
	c.callOrd[name] = ord + 1
	for ai, as := range c.ct.Asserts {
		if as.Callee != name || as.Ord != ord {
			continue
		}
		local := c.localLookup(in)
		lk := func(n string) (tv, bool) {
			if strings.HasPrefix(n, "arg") {
				var k int
				if _, err := fmt.Sscanf(n, "arg%d", &k); err == nil && k < len(args) && k < len(cc.Args) {
					return tv{v: args[k], t: cc.Args[k].Type()}, true
				}
			}
			return local(n)
		}
		ev := &evalEnv{c: c, lookup: lk, st: c.st, old: c.entry, bound: map[string]tv{}, pkg: c.pkgOf(c.f)}
		f, err := c.safeEval(ev, as.Expr)
		if err != nil {
			c.eng.engineError(fmt.Errorf("%s at %s %d: %v", c.fnName(), name, ord, err))
			continue
		}
		if as.Assume {
			c.em.assert("(=> " + c.reach[c.curB] + " " + f + ")")
			continue
		}
		o := &Obl{Class: "assert", Fn: c.fnName(), Pos: c.eng.prog.Fset.Position(in.Pos()), Text: as.Expr.Src, Guard: c.reach[c.curB], Cond: f}
		o.Name = fmt.Sprintf("%s#assert:%s%d:%s", o.Fn, name, ord, shortText(fmt.Sprintf("a%d %s", ai, as.Expr.Src)))
		c.obls = append(c.obls, o)
		c.assertHit[ai] = true
		// assert, then assume: what follows may use the asserted fact (it is reported when it does not hold)
		if c.curB != nil {
			c.reach[c.curB] = c.em.define("ok", "Bool", "(and "+o.Guard+" "+f+")")
		}
	}
}
