package main

import (
	"fmt"
	"go/types"
	"strings"
)

// lemmaCtx builds a bare context (no function) for pure lemma verification.
func (e *Engine) lemmaCtx() *fnCtx {
	em := newEmit()
	c := &fnCtx{eng: e, em: em, vals: nil, occ: map[string]int{}, dead: map[string]bool{}}
	fmt.Fprintf(&em.out, "(declare-fun elem (Int Int) Int)\n(declare-fun elem_arr (Int) Int)\n(declare-fun elem_idx (Int) Int)\n(declare-fun rkind (Int) Int)\n(declare-fun owner (Int) Int)\n(declare-fun atype (Int) Int)\n(assert (= (owner 0) 0))\n")
	c.st = &State{epoch: 0, m: map[string]string{}}
	em.wm0 = c.heapGet("$wm")
	c.entry = c.st.clone()
	return c
}

func (c *fnCtx) lemmaParams(ps []SpecParam, pkg *types.Package) map[string]tv {
	m := map[string]tv{}
	for _, p := range ps {
		switch p.Kind {
		case "bool":
			n := c.em.fresh("lp_" + p.Name)
			c.em.decl(n, "Bool")
			m[p.Name] = mathBool(n)
		case "slice":
			et := types.Type(types.Typ[types.Uint8])
			v := c.freshVal(types.NewSlice(et), "lp_"+p.Name)
			m[p.Name] = tv{v: v, t: types.NewSlice(et)}
			// byte range facts for the contents
			k := elemKey(et)
			c.em.regKey(k, "Int", true)
			h := c.heapGet(k)
			c.em.assert(fmt.Sprintf("(forall ((k Int)) (! (and (<= 0 (select (select %s %s) k)) (<= (select (select %s %s) k) 255)) :pattern ((select (select %s %s) k))))", h, v.T[0], h, v.T[0], h, v.T[0]))
		default:
			n := c.em.fresh("lp_" + p.Name)
			c.em.decl(n, "Int")
			m[p.Name] = mathInt(n)
		}
	}
	return m
}

func (e *Engine) lemmaByName(name string) *Lemma {
	for _, l := range e.lemmas {
		if l.Name == name {
			return l
		}
	}
	return nil
}

// instLemma: (requires ==> ensures) of lemma l with parameters bound to the given values.
func (c *fnCtx) instLemma(l *Lemma, bind map[string]tv) (string, error) {
	ev := &evalEnv{c: c, st: c.st, old: c.st, bound: map[string]tv{}, pkg: l.Pkg}
	for k, v := range bind {
		ev.bound[k] = v
	}
	var rq, en []string
	for _, r := range l.Requires {
		f, err := c.safeEval(ev, r)
		if err != nil {
			return "", err
		}
		rq = append(rq, f)
	}
	for _, r := range l.Ensures {
		f, err := c.safeEval(ev, r)
		if err != nil {
			return "", err
		}
		en = append(en, f)
	}
	return "(=> (and true " + strings.Join(rq, " ") + ") (and true " + strings.Join(en, " ") + "))", nil
}

// useClause evaluates "name(args)" in env and returns the lemma instance.
func (c *fnCtx) useClause(u *Expr, ev *evalEnv) (string, error) {
	if u.Op != "call" {
		return "", fmt.Errorf("use: lemma application expected")
	}
	l := c.eng.lemmaByName(u.Name)
	if l == nil {
		return "", fmt.Errorf("use: unknown lemma %s", u.Name)
	}
	if len(u.A) != len(l.Params) {
		return "", fmt.Errorf("use %s: %d arguments expected", l.Name, len(l.Params))
	}
	bind := map[string]tv{}
	var err error
	func() {
		defer func() {
			if r := recover(); r != nil {
				if ee, ok := r.(evalErr); ok {
					err = fmt.Errorf("use %s: %s", l.Name, ee.msg)
					return
				}
				panic(r)
			}
		}()
		for i, a := range u.A {
			bind[l.Params[i].Name] = ev.eval(a)
		}
	}()
	if err != nil {
		return "", err
	}
	return c.instLemma(l, bind)
}

func lemmaHasProp(l *Lemma, prop string) bool {
	for _, p := range l.Props {
		if p == prop {
			return true
		}
	}
	return false
}

// verifyLemmas proves the pure lemmas tagged with the property.
func (e *Engine) verifyLemmas(prop string) []*Obl {
	var all []*Obl
	for _, l := range e.lemmas {
		if !lemmaHasProp(l, prop) {
			continue
		}
		c := e.lemmaCtx()
		params := c.lemmaParams(l.Params, l.Pkg)
		ev := &evalEnv{c: c, st: c.st, old: c.st, bound: map[string]tv{}, pkg: l.Pkg}
		for k, v := range params {
			ev.bound[k] = v
		}
		ok := true
		for _, r := range l.Requires {
			f, err := c.safeEval(ev, r)
			if err != nil {
				e.engineError(fmt.Errorf("lemma %s: %v", l.Name, err))
				ok = false
				break
			}
			c.em.assert(f)
		}
		if !ok {
			continue
		}
		var obls []*Obl
		if l.Induction != "" {
			n, has := params[l.Induction]
			if !has {
				e.engineError(fmt.Errorf("lemma %s: induction variable %s is not a parameter", l.Name, l.Induction))
				continue
			}
			bind := map[string]tv{}
			for k, v := range params {
				bind[k] = v
			}
			bind[l.Induction] = mathInt(fmt.Sprintf("(- %s %d)", n.v.T[0], l.Step))
			ih, err := c.instLemma(l, bind)
			if err != nil {
				e.engineError(fmt.Errorf("lemma %s: %v", l.Name, err))
				continue
			}
			c.em.assert(ih)
			// well-foundedness: the requires clause bounds the induction variable from below
			o := &Obl{Class: "lemma", Fn: "lemma." + l.Name, Text: "induction variable bounded below by requires", Guard: "true", Cond: "(>= " + n.v.T[0] + " 0)"}
			o.Name = "lemma." + l.Name + "#lemma:wf"
			obls = append(obls, o)
		}
		for _, u := range l.Uses {
			f, err := c.useClause(u, ev)
			if err != nil {
				e.engineError(fmt.Errorf("lemma %s: %v", l.Name, err))
				continue
			}
			c.em.assert(f)
		}
		for i, en := range l.Ensures {
			f, err := c.safeEval(ev, en)
			if err != nil {
				e.engineError(fmt.Errorf("lemma %s: %v", l.Name, err))
				continue
			}
			o := &Obl{Class: "lemma", Fn: "lemma." + l.Name, Text: en.Src, Guard: "true", Cond: f}
			o.Name = fmt.Sprintf("lemma.%s#lemma:e%d", l.Name, i)
			obls = append(obls, o)
		}
		e.solve(c.em.out.String(), obls, e.opts.TimeoutMs, nil, true)
		all = append(all, obls...)
	}
	return all
}
