package main

import (
	"fmt"
	"go/constant"
	"go/token"
	"go/types"
	"strings"
)

// Kind of a symbolic value.
type Kind int

const (
	KInt Kind = iota
	KBool
	KStr    // T: id, len
	KSlice  // T: arr, off, len, cap
	KPtr    // T: ref   (P describes scalar-cell pointers)
	KStruct // F: fields
	KTuple  // F: elems
	KIface  // T: typeid, val
	KArr    // T: SMT array term (scalar element) ; otherwise opaque
	KOpaque // T: int token (maps, funcs, chans, floats, complex ...)
)

// Ptr describes a pointer to a scalar cell (something stored directly in one heap key group).
type Ptr struct {
	Key string // heap key group, e.g. "layers.IPv4.IHL", "elem:uint8", "cell:int"
	Arr string // non-empty for two-level keys (elem:*): array id
	Idx string // index term (object ref for one-level keys, element index for two-level)
	Op  bool   // opaque: unknown location
}

type Val struct {
	K Kind
	T []string
	F []*Val
	P *Ptr
}

func iv(t string) *Val { return &Val{K: KInt, T: []string{t}} }
func bv(t string) *Val { return &Val{K: KBool, T: []string{t}} }

func intRange(b *types.Basic) (lo, hi string, ok bool) {
	switch b.Kind() {
	case types.Int8:
		return "-128", "127", true
	case types.Int16:
		return "-32768", "32767", true
	case types.Int32, types.UntypedRune:
		return "-2147483648", "2147483647", true
	case types.Int, types.Int64, types.UntypedInt:
		return "-9223372036854775808", "9223372036854775807", true
	case types.Uint8:
		return "0", "255", true
	case types.Uint16:
		return "0", "65535", true
	case types.Uint32:
		return "0", "4294967295", true
	case types.Uint, types.Uint64, types.Uintptr:
		return "0", "18446744073709551615", true
	}
	return "", "", false
}

func bitsOf(b *types.Basic) int {
	switch b.Kind() {
	case types.Int8, types.Uint8:
		return 8
	case types.Int16, types.Uint16:
		return 16
	case types.Int32, types.Uint32, types.UntypedRune:
		return 32
	}
	return 64
}

func modulus(b *types.Basic) string { return pow2(int64(bitsOf(b))) }

func isUnsigned(b *types.Basic) bool { return b.Info()&types.IsUnsigned != 0 }

func pow2(n int64) string {
	r := constant.Shift(constant.MakeInt64(1), token.SHL, uint(n))
	return r.ExactString()
}

// neg renders a possibly negative decimal literal as SMT.
func neg(s string) string {
	if strings.HasPrefix(s, "-") {
		return "(- " + s[1:] + ")"
	}
	return s
}

func isIntType(t types.Type) bool {
	b, ok := t.Underlying().(*types.Basic)
	return ok && b.Info()&types.IsInteger != 0
}

// wrapInt reduces a mathematical integer e to the Go type t (two's complement wrap).
func wrapInt(t types.Type, e string) string {
	b, ok := t.Underlying().(*types.Basic)
	if !ok {
		return e
	}
	if _, _, ok := intRange(b); !ok {
		return e
	}
	m := modulus(b)
	// The in-range case is split off: linear arithmetic with mod by 2^64 is slow in the solvers, and almost every
	// value the code computes is in range.
	lo, hi, _ := intRange(b)
	if bitsOf(b) <= 32 {
		// small moduli are cheap for the solvers, and a chain of 16-bit offset computations written with ite
		// case splits makes model search exponential (RadioTap: 25 conditional "offset +=" in a row)
		if isUnsigned(b) {
			return "(mod " + e + " " + m + ")"
		}
		return fmt.Sprintf("(- (mod (+ %s %s 1) %s) %s 1)", e, hi, m, hi)
	}
	if isUnsigned(b) {
		return fmt.Sprintf("(ite (and (<= 0 %s) (< %s %s)) %s (mod %s %s))", e, e, m, e, e, m)
	}
	return fmt.Sprintf("(ite (and (<= %s %s) (<= %s %s)) %s (- (mod (+ %s %s 1) %s) %s 1))", neg(lo), e, e, hi, e, e, hi, m, hi)
}

func kindOf(t types.Type) Kind {
	switch u := t.Underlying().(type) {
	case *types.Basic:
		if u.Info()&types.IsBoolean != 0 {
			return KBool
		}
		if u.Info()&types.IsInteger != 0 {
			return KInt
		}
		if u.Info()&types.IsString != 0 {
			return KStr
		}
		if u.Kind() == types.UnsafePointer {
			return KOpaque
		}
		if u.Kind() == types.UntypedNil {
			return KOpaque
		}
		return KOpaque
	case *types.Slice:
		return KSlice
	case *types.Pointer:
		return KPtr
	case *types.Struct:
		return KStruct
	case *types.Tuple:
		return KTuple
	case *types.Interface:
		return KIface
	case *types.Array:
		return KArr
	}
	return KOpaque
}

// scalarArrayElem reports whether arrays/slices of elem type t keep contents in a two-level heap
// with a single SMT sort (ints and bools only).
func elemSort(t types.Type) (string, bool) {
	switch kindOf(t) {
	case KInt:
		return "Int", true
	case KBool:
		return "Bool", true
	}
	return "", false
}

var typeNameCache = map[types.Type]string{}

func typeName(t types.Type) string {
	t = types.Unalias(t)
	if b, ok := t.(*types.Basic); ok {
		switch b.Kind() {
		case types.Uint8:
			return "uint8"
		case types.Int32:
			return "int32"
		}
	}
	if sl, ok := t.(*types.Slice); ok {
		return "LR" + typeName(sl.Elem())
	}
	s := types.TypeString(t, func(p *types.Package) string { return p.Name() })
	r := strings.NewReplacer(" ", "_", "*", "P", "[", "L", "]", "R", "{", "", "}", "", ";", "_", "(", "", ")", "", ",", "_", "/", "_", "|", "!", "\"", "", "#", "")
	return r.Replace(s)
}

func sanitize(s string) string {
	if s == "" || s == "_" {
		return "x"
	}
	return strings.Map(func(r rune) rune {
		if r >= 'a' && r <= 'z' || r >= 'A' && r <= 'Z' || r >= '0' && r <= '9' {
			return r
		}
		return '_'
	}, s)
}

const maxLen = "72057594037927936" // 2^56
