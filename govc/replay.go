package main

import (
	"bytes"
	"encoding/json"
	"fmt"
	"go/types"
	"os"
	"os/exec"
	"path/filepath"
	"strconv"
	"strings"
	"sync"
	"time"

	"golang.org/x/tools/go/ssa"
)

// ReplayCase is one concrete call of a real function derived from a solver model.
type ReplayCase struct {
	Obl      *Obl
	Res      *FnResult
	Call     string // Go statement(s) performing the call inside package
	Setup    string
	PkgDir   string
	PkgName  string
	Imports  map[string]bool
	Hang     bool // expected failure is non-termination
	Inputs   map[string]string
	Outcome  string // PANIC / OK / HANG / ERROR
	Detail   string
	Confirms bool
	Lifted   string // entry point the helper's counterexample was lifted to ("" when the obligation is the root's own)
	Reset    bool // C05 stale-state comparison (decode into a poisoned and a fresh object)
}

const replayByteLimit = 320

// modelPass re-solves one refuted obligation asking for a small, fully concrete input.
func (e *Engine) modelPass(res *FnResult, o *Obl) map[string]string {
	f := res.Fn
	var terms []modelVar
	var extra []string
	for i, p := range f.Params {
		if i >= len(res.ParamVals) {
			break
		}
		v := res.ParamVals[i]
		switch v.K {
		case KInt, KBool:
			terms = append(terms, modelVar{p.Name(), v.T[0]})
		case KStr:
			terms = append(terms, modelVar{p.Name() + ".len", v.T[1]})
			extra = append(extra, fmt.Sprintf("(<= %s %d)", v.T[1], replayByteLimit))
		case KSlice:
			terms = append(terms, modelVar{p.Name() + ".len", v.T[2]})
			extra = append(extra, fmt.Sprintf("(<= %s %d)", v.T[2], replayByteLimit))
			if isByteSlice(p.Type()) && strings.Contains(res.script, "H0_elem_uint8 ") {
				for k := 0; k < replayByteLimit; k++ {
					terms = append(terms, modelVar{fmt.Sprintf("%s[%d]", p.Name(), k), fmt.Sprintf("(select (select H0_elem_uint8 %s) (+ %s %d))", v.T[0], v.T[1], k)})
				}
			}
		case KStruct, KArr:
			var tmp []modelVar
			c := &fnCtx{}
			c.addModelVars(p.Name(), p.Type(), v)
			tmp = c.modelVars
			terms = append(terms, tmp...)
		}
	}
	if len(terms) == 0 {
		return map[string]string{}
	}
	for attempt := 0; attempt < 2; attempt++ {
		if attempt == 1 && len(res.FirstIter) == 0 {
			break
		}
		var s bytes.Buffer
		fmt.Fprintf(&s, "(set-option :timeout %d)\n", 8000)
		s.WriteString(res.script)
		for _, x := range extra {
			s.WriteString("(assert " + x + ")\n")
		}
		if attempt == 0 {
			// prefer models in which every loop is in its first iteration: those are realisable from the entry
			for _, fi := range res.FirstIter {
				s.WriteString("(assert " + fi + ")\n")
			}
		}
		q := oblQueries(o)
		if len(q) == 0 {
			return nil
		}
		if len(o.Any) > 0 {
			// termination: look for an input on which every candidate measure fails
			for _, alt := range q {
				fmt.Fprintf(&s, "(assert (not (and %s)))\n", strings.Join(alt, " "))
			}
			fmt.Fprintf(&s, "(check-sat)\n(get-value (")
		} else {
			fmt.Fprintf(&s, "(assert (not %s))\n(check-sat)\n(get-value (", q[0][0])
		}
		for _, t := range terms {
			s.WriteString(t.Term + " ")
		}
		s.WriteString("))\n")
		cmd := exec.Command("z3-new", "-in")
		cmd.Stdin = &s
		out, _ := cmd.CombinedOutput()
		str := string(out)
		if strings.HasPrefix(strings.TrimSpace(str), "sat") {
			body := str[strings.Index(str, "sat")+3:]
			return parseModel(body, terms)
		}
	}
	return nil
}

func goByteLit(m map[string]string, name string, n int) string {
	var b strings.Builder
	b.WriteString("[]byte{")
	for k := 0; k < n; k++ {
		v := m[fmt.Sprintf("%s[%d]", name, k)]
		if v == "" {
			v = "0"
		}
		x, _ := strconv.Atoi(v)
		fmt.Fprintf(&b, "%d,", x&255)
	}
	b.WriteString("}")
	return b.String()
}

func hexOf(m map[string]string, name string, n int) string {
	var b strings.Builder
	for k := 0; k < n; k++ {
		v := m[fmt.Sprintf("%s[%d]", name, k)]
		x, _ := strconv.Atoi(v)
		fmt.Fprintf(&b, "%02x", x&255)
	}
	return b.String()
}

func (e *Engine) pkgDirOf(f *ssa.Function) (dir, name, path string) {
	for f.Parent() != nil {
		f = f.Parent()
	}
	if f.Pkg == nil {
		return "", "", ""
	}
	path = f.Pkg.Pkg.Path()
	rel := strings.TrimPrefix(strings.TrimPrefix(path, e.modPath), "/")
	return filepath.Join(e.repo, rel), f.Pkg.Pkg.Name(), path
}

// buildReplay renders a call of the real function with the model's inputs. ok=false when the function's
// parameters cannot be reconstructed from a model (then the obligation stays without a failing input).
func (e *Engine) buildReplay(res *FnResult, o *Obl, model map[string]string) (*ReplayCase, bool) {
	f := res.Fn
	if f.Parent() != nil || model == nil {
		return nil, false
	}
	dir, pname, _ := e.pkgDirOf(f)
	if dir == "" {
		return nil, false
	}
	rc := &ReplayCase{Obl: o, Res: res, PkgDir: dir, PkgName: pname, Imports: map[string]bool{}, Inputs: map[string]string{}, Hang: o.Class == "dec"}
	qual := func(t types.Type) string {
		return types.TypeString(t, func(p *types.Package) string {
			if p.Name() == pname {
				return ""
			}
			rc.Imports[p.Path()] = true
			return p.Name()
		})
	}
	var setup strings.Builder
	var args []string
	sig := f.Signature
	params := f.Params
	recvName := ""
	if sig.Recv() != nil {
		p := params[0]
		params = params[1:]
		rt := p.Type()
		if pt, ok := rt.Underlying().(*types.Pointer); ok {
			fmt.Fprintf(&setup, "recv := new(%s)\n", qual(pt.Elem()))
		} else {
			fmt.Fprintf(&setup, "var recv %s\n", qual(rt))
			if b, ok := rt.Underlying().(*types.Basic); ok && b.Info()&types.IsInteger != 0 {
				if v, ok := model[p.Name()]; ok {
					fmt.Fprintf(&setup, "recv = %s(%s)\n", qual(rt), goIntLit(v, b))
					rc.Inputs[p.Name()] = v
				}
			}
		}
		recvName = "recv"
	}
	if o.Class == "reset" && isDecodeFromBytes(f) {
		// C05: decode the model input into an object whose fields hold stale values and into a fresh object;
		// the field named by the obligation must come out the same.
		p0 := params[0]
		n, _ := strconv.Atoi(model[p0.Name()+".len"])
		if n > replayByteLimit {
			return nil, false
		}
		pt, ok := f.Params[0].Type().Underlying().(*types.Pointer)
		if !ok {
			return nil, false
		}
		field := strings.TrimPrefix(o.Name[strings.Index(o.Name, "#reset:")+len("#reset:"):], "")
		if i := strings.LastIndex(field, "/"); i >= 0 {
			field = field[:i]
		}
		rc.Imports["reflect"] = true
		rc.Imports["unsafe"] = true
		fb := "gopacket.NilDecodeFeedback"
		if pname == "gopacket" {
			fb = "NilDecodeFeedback"
		} else {
			rc.Imports["github.com/gopacket/gopacket"] = true
		}
		setup.Reset()
		wm := e.witnessModel(res, o)
		if wm == nil {
			return nil, false // no input assigns the field at all: no earlier packet can leave a stale value
		}
		wn, _ := strconv.Atoi(wm[p0.Name()+".len"])
		if wn > replayByteLimit {
			return nil, false
		}
		fmt.Fprintf(&setup, "earlier := %s\n", goByteLit(wm, p0.Name(), wn))
		fmt.Fprintf(&setup, "data := %s\n", goByteLit(model, p0.Name(), n))
		fmt.Fprintf(&setup, "stale, fresh := new(%s), new(%s)\n", qual(pt.Elem()), qual(pt.Elem()))
		fmt.Fprintf(&setup, "_ = stale.DecodeFromBytes(earlier, %s)\n", fb)
		rc.Inputs["earlier packet"] = hexOf(wm, p0.Name(), wn)
		fmt.Fprintf(&setup, "e1 := stale.DecodeFromBytes(data, %s)\n", fb)
		fmt.Fprintf(&setup, "e2 := fresh.DecodeFromBytes(append([]byte(nil), data...), %s)\n", fb)
		rc.Inputs[p0.Name()] = hexOf(model, p0.Name(), n)
		rc.Setup = setup.String()
		rc.Call = fmt.Sprintf("verifCompareField(e1, e2, reflect.ValueOf(stale).Elem(), reflect.ValueOf(fresh).Elem(), %q)", field)
		rc.Reset = true
		return rc, true
	}
	if isDecodeFuncSig(f) && sig.Recv() == nil {
		// decode function: run it through a real packet builder with recovery off
		p0 := params[0]
		n, _ := strconv.Atoi(model[p0.Name()+".len"])
		if n > replayByteLimit {
			return nil, false
		}
		rc.Imports["github.com/gopacket/gopacket"] = true
		gp := "gopacket."
		if pname == "gopacket" {
			gp = ""
			delete(rc.Imports, "github.com/gopacket/gopacket")
		}
		fmt.Fprintf(&setup, "data := %s\n", goByteLit(model, p0.Name(), n))
		rc.Inputs[p0.Name()] = hexOf(model, p0.Name(), n)
		rc.Setup = setup.String()
		rc.Call = fmt.Sprintf("_ = %sNewPacket(data, %sDecodeFunc(%s), %sDecodeOptions{SkipDecodeRecovery: true, NoCopy: true})", gp, gp, f.Name(), gp)
		return rc, true
	}
	for _, p := range params {
		t := p.Type()
		switch u := t.Underlying().(type) {
		case *types.Basic:
			switch {
			case u.Info()&types.IsInteger != 0:
				v := model[p.Name()]
				if v == "" {
					v = "0"
				}
				args = append(args, fmt.Sprintf("%s(%s)", qual(t), goIntLit(v, u)))
				rc.Inputs[p.Name()] = v
			case u.Info()&types.IsBoolean != 0:
				v := model[p.Name()]
				if v != "true" {
					v = "false"
				}
				args = append(args, v)
				rc.Inputs[p.Name()] = v
			case u.Info()&types.IsString != 0:
				n, _ := strconv.Atoi(model[p.Name()+".len"])
				if n > replayByteLimit {
					return nil, false
				}
				rc.Imports["strings"] = true
				args = append(args, fmt.Sprintf("strings.Repeat(\"A\", %d)", n))
				rc.Inputs[p.Name()] = fmt.Sprintf("len=%d", n)
			default:
				args = append(args, fmt.Sprintf("*new(%s)", qual(t)))
			}
		case *types.Slice:
			n, _ := strconv.Atoi(model[p.Name()+".len"])
			if n > replayByteLimit {
				return nil, false
			}
			if isByteSlice(t) {
				fmt.Fprintf(&setup, "arg_%s := %s(%s)\n", sanitize(p.Name()), qual(t), goByteLit(model, p.Name(), n))
				rc.Inputs[p.Name()] = hexOf(model, p.Name(), n)
			} else {
				fmt.Fprintf(&setup, "arg_%s := make(%s, %d)\n", sanitize(p.Name()), qual(t), n)
				rc.Inputs[p.Name()] = fmt.Sprintf("len=%d", n)
			}
			args = append(args, "arg_"+sanitize(p.Name()))
		case *types.Pointer:
			args = append(args, fmt.Sprintf("new(%s)", qual(u.Elem())))
		case *types.Interface:
			ts := t.String()
			switch {
			case strings.HasSuffix(ts, "gopacket.SerializeBuffer"):
				if pname == "gopacket" {
					args = append(args, "NewSerializeBuffer()")
				} else {
					rc.Imports["github.com/gopacket/gopacket"] = true
					args = append(args, "gopacket.NewSerializeBuffer()")
				}
			case strings.HasSuffix(ts, "gopacket.DecodeFeedback"):
				if pname == "gopacket" {
					args = append(args, "NilDecodeFeedback")
				} else {
					rc.Imports["github.com/gopacket/gopacket"] = true
					args = append(args, "gopacket.NilDecodeFeedback")
				}
			default:
				return nil, false
			}
		case *types.Struct, *types.Array:
			args = append(args, fmt.Sprintf("*new(%s)", qual(t)))
		default:
			args = append(args, fmt.Sprintf("*new(%s)", qual(t)))
		}
	}
	rc.Setup = setup.String()
	callee := f.Name()
	if recvName != "" {
		callee = recvName + "." + f.Name()
	}
	nres := sig.Results().Len()
	lhs := ""
	if nres > 0 {
		lhs = strings.TrimSuffix(strings.Repeat("_, ", nres), ", ") + " = "
	}
	rc.Call = lhs + callee + "(" + strings.Join(args, ", ") + ")"
	return rc, true
}

func goIntLit(v string, b *types.Basic) string {
	if v == "" {
		return "0"
	}
	return v
}

// runReplays executes the cases of one package in the real package via a test overlay.
func (e *Engine) runReplays(cases []*ReplayCase) {
	byPkg := map[string][]*ReplayCase{}
	for _, c := range cases {
		byPkg[c.PkgDir] = append(byPkg[c.PkgDir], c)
	}
	for dir, cs := range byPkg {
		e.runReplayPkg(dir, cs)
	}
}

func (e *Engine) runReplayPkg(dir string, cs []*ReplayCase) {
	tmp, err := os.MkdirTemp("", "verif-replay-")
	if err != nil {
		return
	}
	defer os.RemoveAll(tmp)
	imports := map[string]bool{"fmt": true, "testing": true, "os": true, "runtime/debug": true, "time": true, "strings": true}
	for _, c := range cs {
		for k := range c.Imports {
			imports[k] = true
		}
	}
	var src strings.Builder
	fmt.Fprintf(&src, "package %s\n\nimport (\n", cs[0].PkgName)
	for k := range imports {
		fmt.Fprintf(&src, "\t%q\n", k)
	}
	src.WriteString(")\n\nvar _ = strings.Repeat\nvar _ = time.Now\n\n")
	src.WriteString(`func verifReplayRun(idx int, want string, f func()) {
	done := make(chan string, 1)
	go func() {
		defer func() {
			if r := recover(); r != nil {
				st := string(debug.Stack())
				hit := "other"
				if strings.Contains(st, want+" ") || strings.Contains(st, want+"\n") || !strings.Contains(want, ".go:") && strings.Contains(st, want) {
					hit = "target"
				}
				done <- fmt.Sprintf("PANIC %s %v", hit, r)
				return
			}
		}()
		f()
		done <- "OK"
	}()
	select {
	case s := <-done:
		fmt.Printf("VERIF-REPLAY %d %s\n", idx, strings.ReplaceAll(s, "\n", " "))
	case <-time.After(4 * time.Second):
		fmt.Printf("VERIF-REPLAY %d HANG\n", idx)
		os.Exit(0)
	}
}

`)
	if imports["reflect"] {
		src.WriteString(verifResetHelpers)
	}
	for i, c := range cs {
		want := c.Res.Fn.Name()
		if r := c.Res.Fn.Signature.Recv(); r != nil {
			t := r.Type()
			if p, ok := t.(*types.Pointer); ok {
				t = p.Elem()
			}
			if n, ok := t.(*types.Named); ok {
				want = n.Obj().Name() + ")." + c.Res.Fn.Name()
			}
		} else {
			want = "." + want + "("
		}
		if c.Obl != nil && c.Obl.Pos.Line > 0 && c.Obl.Class != "dec" && !c.Reset {
			// the panic must come from the source line of the refuted obligation (a frame at file:line on the stack)
			want = fmt.Sprintf("%s:%d", shortFile(c.Obl.Pos.Filename), c.Obl.Pos.Line)
		}
		fmt.Fprintf(&src, "func TestVerifReplay%d(t *testing.T) {\n\tverifReplayRun(%d, %q, func() {\n", i, i, want)
		for _, l := range strings.Split(strings.TrimSpace(c.Setup), "\n") {
			if l != "" {
				src.WriteString("\t\t" + l + "\n")
			}
		}
		src.WriteString("\t\t" + c.Call + "\n\t})\n}\n\n")
	}
	testFile := filepath.Join(tmp, "zz_verif_replay_test.go")
	os.WriteFile(testFile, []byte(src.String()), 0644)
	ov := map[string]map[string]string{"Replace": {filepath.Join(dir, "zz_verif_replay_test.go"): testFile}}
	ovb, _ := json.Marshal(ov)
	ovFile := filepath.Join(tmp, "ov.json")
	os.WriteFile(ovFile, ovb, 0644)
	bin := filepath.Join(tmp, "replay.test")
	rel, _ := filepath.Rel(e.repo, dir)
	build := exec.Command("go", "test", "-c", "-overlay", ovFile, "-tags", "verif", "-vet=off", "-o", bin, "./"+rel)
	build.Dir = e.repo
	build.Env = append(os.Environ(), "GOFLAGS=-mod=mod", "GOPROXY=off")
	if out, err := build.CombinedOutput(); err != nil {
		for _, c := range cs {
			c.Outcome = "ERROR"
			c.Detail = "replay build failed: " + firstLines(string(out), 6)
		}
		return
	}
	var wg sync.WaitGroup
	sem := make(chan bool, 12)
	for i, c := range cs {
		wg.Add(1)
		sem <- true
		go func(i int, c *ReplayCase) {
			defer wg.Done()
			defer func() { <-sem }()
			t0 := time.Now()
			sh := fmt.Sprintf("ulimit -v 6000000; cd %q && exec timeout 20 %q -test.run '^TestVerifReplay%d$' -test.timeout 15s", dir, bin, i)
			cmd := exec.Command("bash", "-c", sh)
			out, _ := cmd.CombinedOutput()
			c.Outcome = "ERROR"
			c.Detail = firstLines(string(out), 4)
			for _, l := range strings.Split(string(out), "\n") {
				if strings.HasPrefix(l, fmt.Sprintf("VERIF-REPLAY %d ", i)) {
					rest := strings.TrimPrefix(l, fmt.Sprintf("VERIF-REPLAY %d ", i))
					c.Detail = rest
					switch {
					case strings.HasPrefix(rest, "PANIC"):
						c.Outcome = "PANIC"
					case strings.HasPrefix(rest, "HANG"):
						c.Outcome = "HANG"
					case strings.HasPrefix(rest, "OK"):
						c.Outcome = "OK"
					}
				}
			}
			if c.Outcome == "ERROR" && (strings.Contains(string(out), "out of memory") || strings.Contains(string(out), "cannot allocate") || time.Since(t0) > 14*time.Second) {
				c.Outcome = "HANG"
				c.Detail = "resource exhaustion / timeout: " + firstLines(string(out), 2)
			}
			switch {
			case c.Reset:
				c.Confirms = c.Outcome == "PANIC" && strings.Contains(c.Detail, "VERIF-STALE")
			case c.Obl.Class == "dec":
				c.Confirms = c.Outcome == "HANG"
			default:
				c.Confirms = c.Outcome == "PANIC" && strings.HasPrefix(c.Detail, "PANIC target")
			}
		}(i, c)
	}
	wg.Wait()
}

func firstLines(s string, n int) string {
	ls := strings.Split(strings.TrimSpace(s), "\n")
	if len(ls) > n {
		ls = ls[:n]
	}
	return strings.Join(ls, " | ")
}

const verifResetHelpers = `
func verifSettable(v reflect.Value) reflect.Value {
	if v.CanSet() {
		return v
	}
	if v.CanAddr() {
		return reflect.NewAt(v.Type(), unsafe.Pointer(v.UnsafeAddr())).Elem()
	}
	return v
}

// (verifPoison is kept for experiments; the registered replay derives stale state from a real earlier decode)
// verifPoison fills a value with the kind of state a previously decoded packet can leave behind.
func verifPoison(v reflect.Value, depth int) {
	v = verifSettable(v)
	if !v.CanSet() || depth > 5 {
		return
	}
	switch v.Kind() {
	case reflect.Bool:
		v.SetBool(true)
	case reflect.Int, reflect.Int8, reflect.Int16, reflect.Int32, reflect.Int64:
		v.SetInt(0x55)
	case reflect.Uint, reflect.Uint8, reflect.Uint16, reflect.Uint32, reflect.Uint64:
		v.SetUint(0x55)
	case reflect.String:
		v.SetString("stale")
	case reflect.Slice:
		s := reflect.MakeSlice(v.Type(), 3, 3)
		for i := 0; i < 3; i++ {
			verifPoison(s.Index(i), depth+1)
		}
		v.Set(s)
	case reflect.Array:
		for i := 0; i < v.Len(); i++ {
			verifPoison(v.Index(i), depth+1)
		}
	case reflect.Struct:
		for i := 0; i < v.NumField(); i++ {
			verifPoison(v.Field(i), depth+1)
		}
	}
}

func verifField(v reflect.Value, path string) reflect.Value {
	for _, name := range strings.Split(path, ".") {
		for v.Kind() == reflect.Ptr {
			if v.IsNil() {
				return reflect.Value{}
			}
			v = v.Elem()
		}
		if v.Kind() != reflect.Struct {
			return reflect.Value{}
		}
		v = v.FieldByName(name)
		if !v.IsValid() {
			return v
		}
	}
	return verifSettable(v)
}

func verifEq(a, b reflect.Value) bool {
	if a.Kind() != b.Kind() {
		return false
	}
	switch a.Kind() {
	case reflect.Slice:
		if a.Len() != b.Len() {
			return false
		}
		for i := 0; i < a.Len(); i++ {
			if !verifEq(a.Index(i), b.Index(i)) {
				return false
			}
		}
		return true
	case reflect.Struct:
		for i := 0; i < a.NumField(); i++ {
			if !verifEq(verifSettable(a.Field(i)), verifSettable(b.Field(i))) {
				return false
			}
		}
		return true
	case reflect.Array:
		for i := 0; i < a.Len(); i++ {
			if !verifEq(a.Index(i), b.Index(i)) {
				return false
			}
		}
		return true
	}
	if a.CanInterface() && b.CanInterface() {
		return reflect.DeepEqual(a.Interface(), b.Interface())
	}
	return true
}

func verifCompareField(e1, e2 error, stale, fresh reflect.Value, path string) {
	if e1 != nil || e2 != nil {
		if (e1 == nil) != (e2 == nil) {
			panic(fmt.Sprintf("VERIF-STALE decode result differs: stale-object err=%v fresh-object err=%v", e1, e2))
		}
		return
	}
	a, b := verifField(stale, path), verifField(fresh, path)
	if !a.IsValid() || !b.IsValid() || !a.CanInterface() || !b.CanInterface() {
		return
	}
	if !verifEq(a, b) {
		panic(fmt.Sprintf("VERIF-STALE field %s: reused object has %v, fresh object has %v", path, a.Interface(), b.Interface()))
	}
}
`

// witnessModel finds an input after which the field of a reset obligation holds an assigned value.
func (e *Engine) witnessModel(res *FnResult, o *Obl) map[string]string {
	if o.Witness == "" {
		return nil
	}
	f := res.Fn
	var terms []modelVar
	var extra []string
	for i, p := range f.Params {
		if i >= len(res.ParamVals) {
			break
		}
		v := res.ParamVals[i]
		if v.K == KSlice && isByteSlice(p.Type()) {
			terms = append(terms, modelVar{p.Name() + ".len", v.T[2]})
			extra = append(extra, fmt.Sprintf("(<= %s %d)", v.T[2], replayByteLimit))
			if strings.Contains(res.script, "H0_elem_uint8 ") {
				for k := 0; k < replayByteLimit; k++ {
					terms = append(terms, modelVar{fmt.Sprintf("%s[%d]", p.Name(), k), fmt.Sprintf("(select (select H0_elem_uint8 %s) (+ %s %d))", v.T[0], v.T[1], k)})
				}
			}
		}
	}
	if len(terms) == 0 {
		return nil
	}
	for attempt := 0; attempt < 2; attempt++ {
		var s bytes.Buffer
		fmt.Fprintf(&s, "(set-option :timeout %d)\n", 8000)
		s.WriteString(res.script)
		for _, x := range extra {
			s.WriteString("(assert " + x + ")\n")
		}
		if attempt == 0 {
			for _, fi := range res.FirstIter {
				s.WriteString("(assert " + fi + ")\n")
			}
		}
		fmt.Fprintf(&s, "(assert %s)\n(check-sat)\n(get-value (", o.Witness)
		for _, t := range terms {
			s.WriteString(t.Term + " ")
		}
		s.WriteString("))\n")
		cmd := exec.Command("z3-new", "-in")
		cmd.Stdin = &s
		out, _ := cmd.CombinedOutput()
		str := string(out)
		if strings.HasPrefix(strings.TrimSpace(str), "sat") {
			return parseModel(str[strings.Index(str, "sat")+3:], terms)
		}
	}
	return nil
}
