#!/bin/bash
# Re-confirms every stored seed against the current /repo HEAD in a scratch worktree (removed afterwards):
# patch applies, demo passes on the clean tree, demo fails with the patch. Writes seeded/<id>/status.txt.
export GOFLAGS=-mod=mod GOPROXY=off
WT=/tmp/seedreconfirm.$$
git -C /repo worktree add --detach $WT HEAD >/dev/null 2>&1 || exit 2
trap 'git -C /repo worktree remove --force $WT >/dev/null 2>&1; git -C /repo worktree prune' EXIT
cd $WT
for d in /verif/seeded/*/; do
  id=$(basename $d)
  [ -n "$1" ] && [[ ! "$id" =~ $1 ]] && continue
  place=$(head -1 $d/demo_test.go | sed -n 's,^// place in: *,,p' | awk '{print $1}'); [ -z "$place" ] && place=.
  git checkout -q -- . ; git clean -fdq
  if ! git apply --check $d/patch.diff 2>/dev/null; then echo "$id: obsolete (patch no longer applies to $(git -C /repo log --format=%h -1))" | tee $d/status.txt; continue; fi
  cp $d/demo_test.go $place/zz_seed_demo_test.go
  go test -vet=off -count=1 -timeout 180s -run 'Seed|Demo|C[0-9][0-9]' ./$place >/dev/null 2>&1; clean=$?
  git apply $d/patch.diff
  go test -vet=off -count=1 -timeout 180s -run 'Seed|Demo|C[0-9][0-9]' ./$place >/dev/null 2>&1; mut=$?
  if [ $clean -eq 0 ] && [ $mut -ne 0 ]; then echo "$id: valid at $(git -C /repo log --format=%h -1) (demo passes clean, fails with the patch)" | tee $d/status.txt
  else echo "$id: obsolete at $(git -C /repo log --format=%h -1) (demo clean=$clean patched=$mut: the repaired tree no longer lets this change break the property the same way)" | tee $d/status.txt; fi
done
