#!/bin/sh
# usage: seedtest.sh <patch.diff> <PROP>...   applies the patch to /repo, runs the quick checks, reverts.
P="$1"; shift
cd /repo || exit 2
git apply --check "$P" || { echo "patch does not apply"; exit 2; }
git apply "$P"
for id in "$@"; do
  echo "== $id with $(basename $(dirname $P))/$(basename $P)"
  (cd /verif && ./check $id 2>/dev/null | grep -E "VIOLATION|KNOWN|UNDECIDED|BROKEN|property=" | cut -c1-260)
  echo "exit=$?"
done
git -C /repo checkout -- . 
git -C /repo status --short | grep -v zz_verif | head -3
