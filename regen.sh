#!/bin/sh
# Regenerates the ledgers from /repo's pinned tree (development tool; never used by the registered checks), then
# runs every registered check normally so that the evidence files are rewritten.  usage: ./regen.sh [IDs...]
cd "$(dirname "$0")" || exit 2
export GOFLAGS=-mod=mod GOPROXY=off
IDS="$*"
[ -z "$IDS" ] && IDS="C06 C10 C14 C17 C18 C08 C16 C11 C13 C09 C15 C03 C05 C04 C07 C19 C01 C02"
for p in $IDS; do
  echo "== regen $p $(date +%T)"
  bin/govc check -property $p -update-ledger > /tmp/regen_$p.log 2>&1
  tail -1 /tmp/regen_$p.log
done
for p in $IDS; do
  echo "== check $p $(date +%T)"
  ./check $p > /tmp/check_$p.log 2>&1; echo "exit $?"
  grep -E "^(VIOLATION|UNDECIDED|KNOWN-FINDING|BROKEN)" /tmp/check_$p.log | head -20
  tail -1 /tmp/check_$p.log
done
echo "== done $(date +%T)"
