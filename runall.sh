#!/bin/sh
# Runs every registered quick check on /repo's working tree (rewrites the evidence files).  usage: ./runall.sh [IDs...]
cd "$(dirname "$0")" || exit 2
IDS="$*"
[ -z "$IDS" ] && IDS="C06 C10 C14 C17 C18 C08 C16 C11 C13 C09 C15 C03 C05 C04 C07 C19 C01 C02"
rc=0
for p in $IDS; do
  ./check $p > /tmp/check_$p.log 2>&1; r=$?
  echo "$p exit $r $(tail -1 /tmp/check_$p.log | cut -c1-200)"
  grep -E "^(VIOLATION|UNDECIDED|KNOWN-FINDING|BROKEN)" /tmp/check_$p.log | head -10 | cut -c1-200
  [ $r -ne 0 ] && rc=1
done
exit $rc
