#!/usr/bin/env python3
"""Run the seeded property-breaking changes against the checks.

usage: seedmatrix.py [--repo DIR] [--verif DIR] [--only REGEX] [--props C01,C02] [--out FILE]

For every /verif/seeded/<id>/patch.diff: apply it to the repo copy, run the quick check of the property the
seed breaks (plus extra checks listed in EXTRA), record exit status and VIOLATION lines, revert the patch.
Never run this against /repo while other work is going on there: point --repo at a scratch copy or at the
snapshot a `vp run --with-repo` provides ($VP_RUN_REPO).
"""
import argparse, json, os, re, subprocess, sys, time

EXTRA = {  # seeds that a second property's check should also see
    "C01": ["C19"], "C19": ["C01"], "C06": ["C02"],
}

def sh(cmd, cwd=None, timeout=3600):
    p = subprocess.run(cmd, shell=True, cwd=cwd, stdout=subprocess.PIPE, stderr=subprocess.STDOUT, text=True, timeout=timeout)
    return p.returncode, p.stdout

def main():
    ap = argparse.ArgumentParser()
    ap.add_argument("--repo", default=os.environ.get("VP_RUN_REPO", ""))
    ap.add_argument("--verif", default=os.getcwd())
    ap.add_argument("--only", default="")
    ap.add_argument("--props", default="")
    ap.add_argument("--out", default="seedmatrix.json")
    ap.add_argument("--noextra", action="store_true")
    a = ap.parse_args()
    if not a.repo or os.path.realpath(a.repo) == "/repo" and not os.environ.get("SEEDMATRIX_ALLOW_REPO"):
        print("refusing to patch /repo itself; pass --repo <scratch copy> (or set SEEDMATRIX_ALLOW_REPO=1)")
        sys.exit(2)
    verif = os.path.realpath(a.verif)
    govc = os.path.join(verif, "bin", "govc")
    env = "GOFLAGS=-mod=mod GOPROXY=off"
    if not os.path.exists(govc):
        rc, out = sh(f"cd {verif}/govc && {env} go build -o ../bin/govc .")
        if rc != 0:
            print(out); sys.exit(2)
    registered = set()
    try:
        for c in json.load(open(os.path.join(verif, "MANIFEST.json")))["checks"]:
            registered.add(c["property_id"])
    except Exception:
        pass
    props = set(a.props.split(",")) if a.props else None
    results = {}
    seeds = sorted(os.listdir(os.path.join(verif, "seeded")))
    for sd in seeds:
        if a.only and not re.search(a.only, sd):
            continue
        pid = sd.split("-")[0]
        patch = os.path.join(verif, "seeded", sd, "patch.diff")
        if not os.path.exists(patch):
            continue
        checks = [pid] + ([] if a.noextra else EXTRA.get(pid, []))
        if props:
            checks = [c for c in checks if c in props]
        if not checks:
            continue
        rc, out = sh(f"git -C {a.repo} apply --check {patch}")
        if rc != 0:
            results[sd] = {"error": "patch does not apply: " + out.strip()[:200]}
            print(sd, "PATCH DOES NOT APPLY", flush=True)
            continue
        sh(f"git -C {a.repo} apply {patch}")
        try:
            for c in checks:
                t0 = time.time()
                rc, out = sh(f"{env} {govc} check -property {c} -tier quick -repo {a.repo} -verif {verif}", cwd=verif)
                viol = [l for l in out.splitlines() if l.startswith("VIOLATION")]
                und = [l for l in out.splitlines() if l.startswith("UNDECIDED")]
                summ = [l for l in out.splitlines() if l.startswith("property=")]
                confirmed = [v for v in viol if "no-failing-input-found" not in v]
                results.setdefault(sd, {})[c] = {
                    "exit": rc, "violations": len(viol), "with_failing_input": len(confirmed), "undecided": len(und),
                    "first": [re.sub(r".*replay=\S*/", "", v) for v in (confirmed + viol)[:4]],
                    "summary": summ[-1] if summ else out[-300:], "wall_s": round(time.time() - t0, 1),
                    "registered": c in registered,
                }
                print(sd, c, "exit", rc, "violations", len(viol), "confirmed", len(confirmed), "undecided", len(und), f"{time.time()-t0:.0f}s", flush=True)
        finally:
            sh(f"git -C {a.repo} checkout -- . && git -C {a.repo} clean -fdq")
        json.dump(results, open(a.out, "w"), indent=1)
    json.dump(results, open(a.out, "w"), indent=1)

if __name__ == "__main__":
    main()
