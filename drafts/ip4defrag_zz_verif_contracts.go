//go:build verif

// Contracts for the deductive verifier under /verif (govc); compiled only with the build tag "verif".

package ip4defrag

// A fragment accepted by the security checks lies inside a 65535-byte datagram, is at least 8 payload bytes
// long unless it is the last one, and has a legal offset - over the mathematical integers (RFC 791).
//@ func (d *IPv4Defragmenter) securityChecks(ip *layers.IPv4) error
//@   props C13
//@   requires ip.Length >= ip.IHL * 4
//@   ensures result == nil ==> ip.FragOffset * 8 + ip.Length <= 65535
//@   ensures result == nil ==> ip.FragOffset <= 8183
//@   ensures result == nil && ip.Flags & 1 != 0 ==> ip.Length - ip.IHL * 4 >= 8
//@   modifies nothing

// dontDefrag: exactly the packets that are not fragments (DF set, or last fragment at offset 0).
//@ func (d *IPv4Defragmenter) dontDefrag(ip *layers.IPv4) bool
//@   props C13
//@   ensures result == ((ip.Flags >> 1) & 1 != 0 || (ip.Flags & 1 == 0 && ip.FragOffset == 0))
//@   modifies nothing
