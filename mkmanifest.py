#!/usr/bin/env python3
"""Writes /verif/MANIFEST.json (kept as a script so that the per-property texts stay in one reviewed place)."""
import json, subprocess

TB = ("Trusted: go/packages+go/types+go/ssa (x/tools v0.29.0) and govc's SSA->SMT translation; z3 5.1.0 / z3 4.8.12 / cvc5 1.0 soundness; "
      "modelled/assumed external functions and user-implemented interfaces (listed in the evidence); 64-bit int; single-threaded semantics; "
      "obligations listed in ledger/<id>.json as 'unproved' are NOT claimed (tool limits), confirmed defects are fix: commits or known_findings.txt. ")
TECH = "contract-based deductive verification (govc: VCs over go/ssa, z3/cvc5)"

P = {
 "C01": ("Recover-dominance and error-layer contracts in packet.go (a deferred recover dominates every decoder call; addFinalDecodeError appends exactly one failure layer which is last), PacketBuilder typestate on every decode function (no layer / next decoder after an error layer), progress obligations (payload handed on is strictly shorter than the input, bounding the decode chain), termination measures for every decoder loop, and no-panic obligations for the accessor / renderer / flow / checksum-verification methods for arbitrary receiver state. Each discharged obligation is an unbounded proof; undischarged ones are listed, not claimed.",
         "Reflection-based renderers (LayerString/LayerDump/LayerGoString) are outside the subset. Accessors are verified for arbitrary receiver state; those that need decode-established invariants are in the unproved ledger.",
         "contract-based deductive verification (govc: recover-dominance / error-layer contracts, decoder typestate, progress and termination obligations, no-panic VCs of accessors, z3/cvc5)"),
 "C02": ("Generated frame obligations for every decoder and accessor: no store, copy, in-place append or callee write targets the input buffer's array (frame-in), no store to package-level state outside init (frame-glob), accessors / VerifyChecksum / String write nothing that existed before the call (frame-ro). Determinism and reader/reader race freedom are consequences of these frames (a function that reads only its arguments and immutable globals and writes only fresh objects), they are not explored as schedules.",
         "Actual goroutine interleavings are not explored; lazy packets are documented as not shareable.",
         "contract-based deductive verification (govc: generated frame contracts - input buffer never written, no stores to package state, read-only accessors, z3/cvc5)"),
 "C03": ("PacketBuilder typestate (layers added before the single tail NextDecoder whose result is the decoder's result) proved for every decode function, plus write-once / append-only contracts on the builder methods and accessor contracts (lazy accessors return the field of the final state and nil only when decoding is complete).",
         "The composition argument (typestate + write-once + identical accessor contracts => observational equivalence) is DESIGN.md section 6 C03 prose; Layer(t)/LayerClass first-match contracts are not written.",
         "contract-based deductive verification (govc: typestate ghost + functional contracts over go/ssa, z3/cvc5)"),
 "C04": ("Capacity-independence obligations for every decoder (no re-slicing of the input beyond len, so the result is the same for the copied, pooled and caller-owned buffer) and the NewPacket copy contract clauses that discharge; each is an unbounded proof for all inputs and all spare capacities.",
         "'No two undisposed pooled packets share memory for any interleaving' rests on the assumed contract of sync.Pool and is not explored.",
         "contract-based deductive verification (govc: capacity-independence obligations + NewPacket contract, z3/cvc5)"),
 "C05": ("Reset obligations on every DecodeFromBytes: each receiver field that some path writes is assigned on every successful return (ghost write flags), so no state of an earlier packet survives; refutations are replayed on the real code by decoding a witness packet and then the model packet into the same object and comparing with a fresh object (A/B replay). Container lookups must not panic for any layer type.",
         "The reset obligation checks assignment, not that the assigned value is independent of the old contents (x = x[:0] reuse is accepted); fixed-size array fields are not tracked; equality of field values between parser and NewPacket follows from both running the same DecodeFromBytes (C03 typestate).",
         "contract-based deductive verification (govc: reset obligations via ghost write flags, A/B replay of refutations via go test -overlay, z3/cvc5)"),
 "C06": ("Byte-layout contracts, over the abstract view of the SerializeBuffer interface contract, on UDP.SerializeTo and ICMPv4.SerializeTo (header bytes equal the fields, payload behind the header untouched, FixLengths length arithmetic) and on UDP.DecodeFromBytes (fields read back from exactly those offsets, payload cut at the length field), and the UDP round trip proved as ghost code over the two contracts: serialize with FixLengths over any payload of at most 65527 bytes, decode, get the same ports, length, checksum and payload length with no error.",
         "Only the layers listed under functions_under_contract in the evidence are covered (UDP round trip, ICMPv4 layout); the other ~85 serialisable layers, option lists, DNS names and the stacking helper are not claimed by this check.",
         "contract-based deductive verification (govc: byte-layout contracts on SerializeTo/DecodeFromBytes over the SerializeBuffer view, round-trip lemma as ghost code, z3/cvc5)"),
 "C07": ("No-panic obligations (index, slice, nil, division, make, callee preconditions incl. PrependBytes(n>=0)) for every SerializableLayer.SerializeTo and its in-module callees under the SerializeBuffer interface contract with arbitrary public field values, plus the definite-initialisation ghost: every byte of a window obtained from PrependBytes/AppendBytes is written before a nil-error return (output independent of what the buffer held before).",
         "Many obligations of the larger serializers (option lists, linked routing entries, DNS name encoding) are in the unproved ledger and not claimed.",
         "contract-based deductive verification (govc: no-panic VCs of every SerializeTo under the SerializeBuffer interface contract + definite-initialisation ghost, z3/cvc5, replay via go test -overlay)"),
 "C08": ("Unbounded proof of the RFC 1071 kernel: ComputeChecksum and FoldChecksum equal the mathematical spec functions tot16 / oc32 / rfc for every input and every accumulator value, with loop invariants and termination (64-bit accumulator with end-around carry fold).",
         "Also under contract: the IPv4 pseudo-header sum, tcpipchecksum.computeChecksum (accumulator = RFC 1071 sum of pseudo-header with the network layer's current addresses, protocol, length and of header plus payload), and the emission sites of ICMPv4, UDP and TCP (the sum is taken over the whole message with a zeroed checksum field; UDP never emits 0). VerifyChecksum methods, ICMPv6, GRE and the IPv4 header checksum are not under functional contracts; the bit-flip lemma is not proved.",
         TECH),
 "C09": ("Kernel only: Sequence.Difference/Add of package reassembly equal the true modular distance sdiff32 inside the +-2^30 window for all 2^64 pairs, antisymmetry / zero / shift lemmas, addPending continuity arithmetic, checkOverlap copy windows. The whole-history delivery theorem is NOT claimed.",
         "Only the arithmetic kernel is decided; see not_covered in the evidence.", TECH),
 "C10": ("Kernel only: Sequence.Difference/Add of package tcpassembly equal sdiff32 inside the +-2^30 window for all 2^64 pairs, lemmas, byteSpan (drops exactly the delivered prefix), pushBetween link equations. The whole-history delivery theorem is NOT claimed.",
         "Only the arithmetic kernel is decided; see not_covered in the evidence.", TECH),
 "C11": ("Completion-once / no-data-after-completion typestate of both assemblers as requires/ensures on closeConnection, closeHalfConnection, sendToConnection and skipFlush, checked at every call site of the flush and assemble entry points; page accounting: pagesFromTCP reports exactly the number of pages it took from the page cache (counter contract on pageCache.next/replace).",
         "Global accounting (no page in use after FlushAll, limit overshoot bound, age cut-off exactness) needs invariants over linked lists and maps across calls and is not claimed. Stream callbacks are assumed not to re-enter the assembler.",
         "contract-based deductive verification (govc: closed-flag typestate contracts and page-counter contracts, z3/cvc5)"),
 "C13": ("RFC 791 fragment arithmetic of securityChecks over mathematical integers (offset*8 + length <= 65535 decided without uint16 wrap-around), exact truth table of dontDefrag.",
         "insert/build contracts (ghost sequence model of container/list), the history theorem and ip6defrag are not claimed.", TECH),
 "C14": ("Ghost byte counters on the buffered reader/writer (assumed bufio contracts): every pcapng option read consumes exactly 4 + length + padding-to-32-bit bytes and returns a value of the announced length; the pcapng packet writer has written header, data and data padding (aligned) when the options start; option lengths sum to a multiple of 4; the pcap reader returns only records with len(data) == CaptureLength <= Length within the snap length.",
         "Writer->reader equality of whole files, libpcap cross-reading and the truncation theorem are not proved as whole-file theorems; option payload writing (values boxed in interface{}) is not covered.",
         "contract-based deductive verification (govc: ghost byte counters via assumed bufio contracts, framing contracts, z3/cvc5)"),
 "C15": ("No-panic, termination and result-clause obligations over every function of the pcap, pcapng and snoop readers with the bytes returned by every read unconstrained (arbitrary, hostile input and any chunking); readBytes returns only when the buffer is full or the stream failed.",
         "compress/gzip internals are external; allocation bounds are proved only where a contract states them (pcap reader: CaptureLength <= snaplen); undischarged obligations (pcapng option values, snoop padding) are listed and not claimed; refutations are not replayed (no stream-synthesising harness).",
         "contract-based deductive verification (govc: no-panic / termination VCs over the reader functions, result contracts, z3/cvc5)"),
 "C16": ("Sequential clauses of the packet source: NewZeroCopyPacketSource marks the source zero-copy, NewPacketSource does not, every option only configures DecodeOptions (interface contract checked on every implementer), PacketsCtx refuses NoCopy on a zero-copy source before the reader goroutine starts, NextPacket returns no packet on error.",
         "Everything about the channel goroutine (exactly-once through the channel, retry timing, close on EOF, cancellation latency) is schedule-dependent and not claimed.",
         "contract-based deductive verification (govc: sequential clauses of the packet source, interface contract for options, z3/cvc5)"),
 "C17": ("Unbounded proof of functional contracts of every Endpoint/Flow constructor and method under the representation invariant wfE/wfF, plus lemmas (equality iff type and bytes equal, split/join, reverse twice, hash symmetry, strict total order) proved as ghost code over those contracts.",
         "bytes.Compare is given its definitional lexicographic contract (assumed). Per-layer flow methods in package layers are not under functional contracts yet.", TECH),
 "C18": ("Unbounded proof, for all buffer states satisfying the representation invariant and all request sizes within the stated no-exhaustion bound, that every serializeBuffer method meets its abstract-view contract (window of requested length, old bytes preserved across growth, Clear empties contents and layers) with frame conditions.",
         "SerializeLayers/SerializePacket stacking contracts are not written.", TECH),
 "C19": ("Zero-annotation no-panic and termination obligations (index, slice, nil, division, make, type assertion, explicit panic, callee preconditions, loop measures) for every DecodeFromBytes method, every registered decode function, the layer parser and their in-module callees, for arbitrary input bytes, arbitrary spare capacity and arbitrary stale receiver state; each discharged obligation is an unbounded proof. Refuted obligations of entry points are replayed on the real code; refuted obligations of helpers are lifted through the call sites to an entry-point input and replayed.",
         "Helper functions without a written contract are verified under 'requires true'; obligations of helpers that rely on their callers' checks are in the unproved ledger and not claimed.",
         "contract-based deductive verification (govc: zero-annotation safety/termination VCs over go/ssa with Houdini-inferred loop invariants, z3/cvc5, counterexample lifting + replay via go test -overlay)"),
}
NA = {
 "C12": "quantifies over goroutine interleavings / channel rendezvous: outside what per-function contracts under sequential semantics can express or decide (DESIGN.md section 7)",
 "C20": "quantifies over goroutine interleavings / channel rendezvous: outside what per-function contracts under sequential semantics can express or decide (DESIGN.md section 7)",
}
order = ["C08", "C17", "C18", "C09", "C10", "C13", "C16", "C11", "C14", "C06", "C03", "C05", "C04", "C15", "C19", "C07", "C01", "C02"]
repo_hooks = subprocess.run("git -C /repo log --format=%h --grep='^verif:'", shell=True, capture_output=True, text=True).stdout.split()
m = {
 "version": 1,
 "setup_cmd": "cd /verif/govc && GOFLAGS=-mod=mod GOPROXY=off go build -o ../bin/govc .",
 "hooks": {"guard": "verif", "enable": "go build -tags verif ; govc loads /repo with packages.Load BuildFlags -tags=verif (comment-only contract files zz_verif_contracts.go plus ghost lemma functions that are never called)",
           "baseline_off_cmd": "cd /repo && go test -mod=mod -vet=off -count=1 -timeout 25m ./...", "source_commits": list(reversed(repo_hooks)), "add_only": True},
 "engines": [{"name": "govc", "path": "govc/", "serves_properties": sorted(P), "kind_free_text": "verification-condition generator for Go over go/ssa with contracts in //@ comments; discharges obligations with z3-new, z3, cvc5 (deterministic resource limits); replays refutations on the real code via go test -overlay (entry points directly, helpers after lifting the counterexample through the call sites)"}],
 "checks": [], "not_applicable": [],
 "notes": "Contracts live in /repo/**/zz_verif_contracts.go behind build tag verif. ledger/<id>.json lists the obligations discharged on the pinned tree and those not claimed; known_findings.txt lists open findings and fixed: entries; seeded/ holds independently produced property-breaking changes (seedmatrix.py runs the checks against them).",
}
for pid in order:
    text, note, tech = P[pid]
    m["checks"].append({"property_id": pid, "quick_cmd": f"./check {pid}", "thorough_cmd": f"./check {pid} --tier thorough", "evidence_file": f"evidence/{pid}.json",
                        "replay_cmd_template": f"./check {pid} --replay {{path}}", "engine": "govc",
                        "level_claimed": {"category": "proof", "text": text, "design_ref": f"DESIGN.md section 6 {pid} and section 12"},
                        "level_note": TB + note, "technique": tech})
for pid in sorted(NA):
    m["not_applicable"].append({"property_id": pid, "reason": NA[pid]})
json.dump(m, open("/verif/MANIFEST.json", "w"), indent=1)
print("checks:", len(m["checks"]), "n/a:", len(m["not_applicable"]), "hooks:", m["hooks"]["source_commits"])
