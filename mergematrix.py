#!/usr/bin/env python3
"""Merges the seed-matrix parts (later parts override earlier ones per seed and check) into seedmatrix.json and writes
detected_by into seeded/<id>/meta.json."""
import json, os, sys
V = os.path.dirname(os.path.abspath(__file__))
m = {}
for part in sys.argv[1:]:
    for sd, v in json.load(open(part)).items():
        if "error" in v:
            m.setdefault(sd, v)
            continue
        if "error" in m.get(sd, {}):
            m[sd] = {}
        m.setdefault(sd, {}).update(v)
json.dump(m, open(f"{V}/seedmatrix.json", "w"), indent=1)
for sd, v in m.items():
    mp = f"{V}/seeded/{sd}/meta.json"
    if not os.path.exists(mp):
        continue
    meta = json.load(open(mp))
    if "error" in v:
        meta["detected_by"] = []
        meta["matrix_note"] = v["error"][:120]
    else:
        meta["detected_by"] = sorted(c for c, r in v.items() if r["exit"] == 1)
        meta["checks_run"] = sorted(v)
        meta["first_obligation_reported"] = {c: (r["first"][0] if r["first"] else "") for c, r in v.items() if r["exit"] == 1}
    json.dump(meta, open(mp, "w"), indent=1)
det = [sd for sd, v in m.items() if "error" not in v and any(r["exit"] == 1 for r in v.values())]
print(len(m), "seeds,", len(det), "detected; missed:", sorted(sd for sd in m if sd not in det))
