#!/usr/bin/env python3
"""Rewrites the block between <!-- STATUS-BEGIN --> and <!-- STATUS-END --> in DESIGN.md from the evidence files,
the ledgers and the seed / neutral matrices (facts measured by the machinery, not typed by hand)."""
import json, os, glob, re

V = os.path.dirname(os.path.abspath(__file__))
man = json.load(open(f"{V}/MANIFEST.json"))
rows = []
for c in man["checks"]:
    pid = c["property_id"]
    ev = json.load(open(f"{V}/evidence/{pid}.json")) if os.path.exists(f"{V}/evidence/{pid}.json") else None
    led = json.load(open(f"{V}/ledger/{pid}.json")) if os.path.exists(f"{V}/ledger/{pid}.json") else {"proved": [], "unproved": {}}
    cov = ev["coverage"] if ev else {}
    rows.append((pid, cov.get("functions", "?"), cov.get("written_contracts", "?"), cov.get("discharged", "?"), len(led.get("unproved", {})),
                 round(ev["wall_s"]) if ev else "?", cov.get("by_backend", {})))
lines = ["| property | functions in scope | of which with a written contract | obligations discharged (quick run) | obligations not claimed (ledger) | quick wall s | by back end |",
         "|---|---|---|---|---|---|---|"]
for r in rows:
    be = ", ".join(f"{k}: {v}" for k, v in sorted(r[6].items()))
    lines.append(f"| {r[0]} | {r[1]} | {r[2]} | {r[3]} | {r[4]} | {r[5]} | {be} |")
lines.append("")
for na in man.get("not_applicable", []):
    lines.append(f"* {na['property_id']}: not applicable - {na['reason']}")
lines.append("")
sm = f"{V}/seedmatrix.json"
if os.path.exists(sm):
    m = json.load(open(sm))
    lines += ["Seeded property-breaking changes (each produced by a sub-agent that saw only the property text, confirmed in a scratch worktree; `seedmatrix.py`):", "",
              "| seed | breaks | check run | exit | violations | with failing input replayed | first obligation reported |", "|---|---|---|---|---|---|---|"]
    for sd in sorted(m):
        v = m[sd]
        if "error" in v:
            lines.append(f"| {sd} | {sd.split('-')[0]} | - | - | - | - | {v['error']} |")
            continue
        for chk in sorted(v, key=lambda c: (c != sd.split('-')[0], c)):
            r = v[chk]
            first = (r["first"][0] if r["first"] else "").replace("|", "/")
            first = re.sub(r"\.json.*", "", first)[:90]
            lines.append(f"| {sd} | {sd.split('-')[0]} | {chk} | {r['exit']} | {r['violations']} | {r['with_failing_input']} | {first} |")
    caught = sum(1 for sd in m if "error" not in m[sd] and any(r["exit"] == 1 for r in m[sd].values()))
    own = sum(1 for sd in m if "error" not in m[sd] and m[sd].get(sd.split("-")[0], {}).get("exit") == 1)
    lines += ["", f"{caught} of {len(m)} seeds are reported by at least one check, {own} by the check of the property they were written against."]
nm = f"{V}/neutralmatrix.json"
if os.path.exists(nm):
    m = json.load(open(nm))
    bad = [(k, c) for k, v in m.items() for c, r in v.items() if r["exit"] != 0]
    lines += ["", f"Neutral edits (`selftest/neutral`, `neutralmatrix.py`): {sum(len(v) for v in m.values())} check runs over {len(m)} harmless edits, {len(bad)} alarms" + (": " + ", ".join(f"{k}/{c}" for k, c in bad) if bad else "") + "."]
s = open(f"{V}/DESIGN.md").read()
blk = "<!-- STATUS-BEGIN -->\n" + "\n".join(lines) + "\n<!-- STATUS-END -->"
if "<!-- STATUS-BEGIN -->" in s:
    s = re.sub(r"<!-- STATUS-BEGIN -->.*?<!-- STATUS-END -->", lambda _: blk, s, flags=re.S)
else:
    s = s.rstrip("\n") + "\n\n### 12.8 Status measured by the machinery (rewritten by mkstatus.py)\n\n" + blk + "\n"
open(f"{V}/DESIGN.md", "w").write(s)
print("status block written:", len(rows), "checks")
