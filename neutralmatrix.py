#!/usr/bin/env python3
"""Must-pass corpus: harmless edits (renamed locals, reordered independent statements, an extra early return,
a temporary variable). Every listed check must stay quiet (exit 0, no VIOLATION) with the edit applied.
usage: neutralmatrix.py --repo <scratch copy of /repo> [--verif DIR]"""
import argparse, json, os, subprocess, sys, time
CHECKS = {"N1-udp-reorder": ["C06", "C05", "C19"], "N2-ethernet-rename-local": ["C06", "C05", "C19"], "N3-ip4-extra-early-return": ["C05", "C19"],
          "N4-reassembly-rename-local": ["C11", "C09"], "N5-checksum-comment-and-temp": ["C08"], "N6-writer-temp-var": ["C18"],
          "N7-gre-temp-var": ["C07"], "N8-dns-rename-local": ["C19"], "N9-packet-temp-var": ["C03"]}
def sh(c, cwd=None):
    p = subprocess.run(c, shell=True, cwd=cwd, stdout=subprocess.PIPE, stderr=subprocess.STDOUT, text=True); return p.returncode, p.stdout
ap = argparse.ArgumentParser(); ap.add_argument("--repo", required=True); ap.add_argument("--verif", default=os.getcwd()); a = ap.parse_args()
if os.path.realpath(a.repo) == "/repo": sys.exit("refusing to patch /repo itself")
verif = os.path.realpath(a.verif); res = {}; bad = 0
for name, checks in sorted(CHECKS.items()):
    patch = os.path.join(verif, "selftest", "neutral", name + ".diff")
    rc, out = sh(f"git -C {a.repo} apply {patch}")
    if rc != 0: print(name, "PATCH DOES NOT APPLY", out[:200]); bad += 1; continue
    try:
        for c in checks:
            t0 = time.time()
            rc, out = sh(f"GOFLAGS=-mod=mod GOPROXY=off {verif}/bin/govc check -property {c} -tier quick -repo {a.repo} -verif {verif}", cwd=verif)
            viol = [l for l in out.splitlines() if l.startswith("VIOLATION")]
            res.setdefault(name, {})[c] = {"exit": rc, "violations": viol[:3]}
            print(name, c, "exit", rc, "violations", len(viol), f"{time.time()-t0:.0f}s", flush=True)
            if rc != 0: bad += 1
    finally:
        sh(f"git -C {a.repo} checkout -- .")
json.dump(res, open(os.path.join(verif, "neutralmatrix.json"), "w"), indent=1)
sys.exit(1 if bad else 0)
