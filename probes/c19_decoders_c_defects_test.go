package layers

import (
	"bytes"
	"encoding/binary"
	"testing"

	"github.com/gopacket/gopacket"
)

func ag3MustNotPanic(t *testing.T, name string, f func()) {
	t.Helper()
	defer func() {
		if r := recover(); r != nil {
			t.Errorf("%s: PANIC: %v", name, r)
		}
	}()
	f()
}

// 1. SIP: a continuation line (leading SP/TAB) as first header line.
func TestAg3SIPContinuationFirst(t *testing.T) {
	ag3MustNotPanic(t, "SIP continuation", func() {
		s := NewSIP()
		_ = s.DecodeFromBytes([]byte("INVITE sip:a@b SIP/2.0\r\n x\r\n\r\n"), gopacket.NilDecodeFeedback)
	})
}

// 2. SIP: zero-value receiver used as a DecodingLayer.
func TestAg3SIPZeroValue(t *testing.T) {
	ag3MustNotPanic(t, "SIP zero value", func() {
		var s SIP
		_ = s.DecodeFromBytes([]byte("INVITE sip:a@b SIP/2.0\r\nVia: x\r\n\r\n"), gopacket.NilDecodeFeedback)
	})
}

// 3. DHCPv6 option with length 0xFFFF in a packet that really has that many bytes: 4+o.Length wraps in uint16.
func TestAg3DHCPv6OptionLengthWrap(t *testing.T) {
	data := make([]byte, 4+4+65535)
	data[0] = 1
	binary.BigEndian.PutUint16(data[4:6], 1)
	binary.BigEndian.PutUint16(data[6:8], 0xFFFF)
	ag3MustNotPanic(t, "DHCPv6 option", func() {
		var d DHCPv6
		_ = d.DecodeFromBytes(data, gopacket.NilDecodeFeedback)
	})
}

func ag3ClientHello(hostLen uint16, tail int) []byte {
	// handshake body
	hs := []byte{1, 0, 0, 0} // type, len(3)
	hs = append(hs, 3, 3)    // version
	hs = append(hs, make([]byte, 32)...)
	hs = append(hs, 0)          // session id len
	hs = append(hs, 0, 2, 0, 0) // cipher suites
	hs = append(hs, 1, 0)       // compression
	ext := []byte{0, 0, 0, 0}   // type server_name, length (filled below)
	body := []byte{0, 9, 0}     // list length, entry type 0
	body = append(body, byte(hostLen>>8), byte(hostLen))
	body = append(body, make([]byte, tail)...)
	binary.BigEndian.PutUint16(ext[2:4], uint16(len(body)))
	ext = append(ext, body...)
	hs = append(hs, byte(len(ext)>>8), byte(len(ext)))
	hs = append(hs, ext...)
	hs[2], hs[3] = byte((len(hs)-4)>>8), byte(len(hs)-4)
	rec := []byte{22, 3, 3, byte(len(hs) >> 8), byte(len(hs))}
	return append(rec, hs...)
}

// 4. TLS ClientHello, server_name extension whose host name length is 0xFFFF: 8+hostnameLength and 9+hostnameLength wrap.
func TestAg3TLSSNIWrap(t *testing.T) {
	data := ag3ClientHello(0xFFFF, 8)
	ag3MustNotPanic(t, "TLS SNI", func() {
		var tl TLS
		_ = tl.DecodeFromBytes(data, gopacket.NilDecodeFeedback)
	})
}

// 5. TLS ClientHello is parsed up to cap(data): the result depends on bytes behind the input.
func TestAg3TLSReadsBeyondLen(t *testing.T) {
	full := ag3ClientHello(4, 4)
	// a record that announces (and carries) only the first 10 bytes of the handshake message
	short := append([]byte{}, full[:5+10]...)
	short[3], short[4] = 0, 10
	exact := make([]byte, len(short))
	copy(exact, short)
	var a TLS
	errExact := a.DecodeFromBytes(exact[:len(exact):len(exact)], gopacket.NilDecodeFeedback)
	big := make([]byte, len(full))
	copy(big, full)
	copy(big, short)
	var b TLS
	errBig := b.DecodeFromBytes(big[:len(short)], gopacket.NilDecodeFeedback)
	if (errExact == nil) != (errBig == nil) {
		t.Errorf("same 15 input bytes: exact-capacity buffer -> err=%v, buffer with spare capacity -> err=%v (handshakes %d vs %d)", errExact, errBig, len(a.Handshake), len(b.Handshake))
	}
}

// 6. GTPv1U: extension header chain in a packet larger than 64 KiB: cIndex/lIndex are uint16.
func TestAg3GTPv1UIndexWrap(t *testing.T) {
	data := make([]byte, 131071)
	data[0] = 0x34 // version 1, PT=1, E=1
	data[1] = 0xff
	binary.BigEndian.PutUint16(data[2:4], 0) // message length (not checked against the real size)
	data[11] = 1                              // next extension header type
	// extension headers of 1020 bytes each starting at offset 12
	for off := 12; off+1020 < len(data); off += 1020 {
		data[off] = 255
		data[off+1019] = 1
	}
	ag3MustNotPanic(t, "GTPv1U", func() {
		var g GTPv1U
		_ = g.DecodeFromBytes(data, gopacket.NilDecodeFeedback)
	})
}

// 7. Geneve: options overshooting OptionsLength make the uint8 offset wrap to 0: payload == whole input.
func TestAg3GeneveOffsetWrap(t *testing.T) {
	data := make([]byte, 8+248+64)
	data[0] = 61 // OptionsLength = 244
	data[2], data[3] = 0x65, 0x58
	off := 8
	// 1 option of 112 bytes + 1 of 128 bytes = 240, then one of 8 bytes: 248 consumed
	for _, l := range []int{112, 128, 8} {
		data[off+3] = byte((l - 4) / 4)
		off += l
	}
	var g Geneve
	err := g.DecodeFromBytes(data, gopacket.NilDecodeFeedback)
	if err == nil && len(g.Payload) >= len(data) {
		t.Errorf("Geneve: len(Contents)=%d len(Payload)=%d len(data)=%d: the payload is the whole input", len(g.Contents), len(g.Payload), len(data))
	}
}

// 8. USB: URB data length larger than the packet.
func TestAg3USBDataLength(t *testing.T) {
	data := make([]byte, 40)
	data[14] = 1 // no setup
	data[15] = 0 // data present
	binary.LittleEndian.PutUint32(data[36:40], 41)
	ag3MustNotPanic(t, "USB", func() {
		var u USB
		_ = u.DecodeFromBytes(data, gopacket.NilDecodeFeedback)
	})
	binary.LittleEndian.PutUint32(data[36:40], 40)
	var u USB
	if err := u.DecodeFromBytes(data, gopacket.NilDecodeFeedback); err == nil && len(u.Payload) >= len(data) {
		t.Errorf("USB: payload (%d bytes) is the whole input (%d bytes), header included", len(u.Payload), len(data))
	}
}

// 9. RMCPClass: table of 16 entries indexed by a uint8.
func TestAg3RMCPClass(t *testing.T) {
	ag3MustNotPanic(t, "RMCPClass.LayerType", func() { _ = RMCPClass(16).LayerType() })
	ag3MustNotPanic(t, "RMCP.NextLayerType", func() { _ = (&RMCP{Class: 200}).NextLayerType() })
}

// 10. ICMPv6Option.String: RDNSS option with fewer than 6 data bytes.
func TestAg3ICMPv6OptionString(t *testing.T) {
	ag3MustNotPanic(t, "ICMPv6Option.String", func() {
		_ = ICMPv6Option{Type: ICMPv6OptRecursiveDNSServer, Data: []byte{1, 2}}.String()
	})
}

// 11. MDP: a reused MDP layer appends to the Contents of the previous packet, i.e. writes into the caller's buffer.
func TestAg3MDPWritesInput(t *testing.T) {
	buf := make([]byte, 256)
	for i := range buf {
		buf[i] = 0xEE
	}
	mk := func(n int, tlv []byte) []byte {
		p := buf[:n]
		for i := range p {
			p[i] = 0
		}
		copy(p[28:], tlv)
		return p
	}
	var m MDP
	p1 := mk(30, []byte{MdpTlvEnd, 0})
	if err := m.DecodeFromBytes(p1, gopacket.NilDecodeFeedback); err != nil {
		t.Fatal(err)
	}
	p2 := mk(60, append([]byte{MdpTlvDeviceInfo, 4, 'a', 'b', 'c', 'd'}, MdpTlvEnd))
	before := append([]byte{}, buf...)
	err := m.DecodeFromBytes(p2, gopacket.NilDecodeFeedback)
	if !bytes.Equal(before, buf) {
		for i := range buf {
			if before[i] != buf[i] {
				t.Errorf("MDP: decoding wrote into the input buffer at offset %d (%#x -> %#x), err=%v", i, before[i], buf[i], err)
				break
			}
		}
	}
}

// 12. PFLog: header length byte 0: Contents empty, Payload == whole input.
func TestAg3PFLogZeroLength(t *testing.T) {
	data := make([]byte, 64)
	data[1] = 2
	var pf PFLog
	if err := pf.DecodeFromBytes(data, gopacket.NilDecodeFeedback); err == nil && len(pf.Payload) >= len(data) {
		t.Errorf("PFLog: len(Contents)=%d len(Payload)=%d len(data)=%d", len(pf.Contents), len(pf.Payload), len(data))
	}
}
