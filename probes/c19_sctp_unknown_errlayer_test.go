package layers

import (
	"testing"

	"github.com/gopacket/gopacket"
)

// C01: "its error layer is non-nil and is the last layer". An unknown SCTP chunk is registered as the packet's
// error layer, and decoding then continues with the following chunks.
func TestAg2SCTPUnknownChunkErrorLayerNotLast(t *testing.T) {
	// decodeSCTPChunkTypeUnknown is not registered for any layer type or chunk type in the library; it can only
	// be used explicitly as a decoder.
	data := []byte{200, 0, 0, 4, // unknown chunk type 200, length 4
		8, 0, 0, 4} // SHUTDOWN ACK chunk
	p := gopacket.NewPacket(data, gopacket.DecodeFunc(decodeSCTPChunkTypeUnknown), gopacket.Default)
	ls := p.Layers()
	for _, l := range ls {
		t.Log("layer", l.LayerType())
	}
	el := p.ErrorLayer()
	if el == nil {
		t.Fatal("no error layer")
	}
	t.Log("error layer:", el.LayerType(), el.Error())
	if gopacket.Layer(el) != ls[len(ls)-1] {
		t.Log("DEVIATION: the error layer is not the last layer of the packet")
	}
}
