package layers

import (
	"fmt"
	"testing"

	"github.com/gopacket/gopacket"
)

func ag2try(name string, f func()) (s string) {
	defer func() {
		if r := recover(); r != nil {
			s = fmt.Sprintf("%s: PANIC %v", name, r)
		}
	}()
	f()
	return name + ": ok"
}

func TestAg2SCTP(t *testing.T) {
	opts := gopacket.DecodeOptions{SkipDecodeRecovery: true}
	cases := map[string][]byte{
		"init4":  {1, 0, 0, 4},
		"sack4":  {3, 0, 0, 4},
		"hb-param-short": {4, 0, 0, 6, 0, 1, 0, 0},
		"hb-param-len0": {4, 0, 0, 8, 0, 1, 0, 0},
		"hb-param-long": {4, 0, 0, 8, 0, 1, 0, 9},
		"err-param-len0": {9, 0, 0, 8, 0, 1, 0, 0},
		"shutdown4": {7, 0, 0, 4},
		"cookie": {10, 0, 0, 4},
		"unknown": {200, 0, 0, 4},
	}
	for n, c := range cases {
		data := append([]byte{0, 1, 0, 2, 0, 0, 0, 0, 0, 0, 0, 0}, c...)
		t.Log(ag2try(n, func() {
			p := gopacket.NewPacket(data, LayerTypeSCTP, opts)
			_ = p.Layers()
		}))
	}
}
