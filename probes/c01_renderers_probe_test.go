package layers

import (
	"encoding/hex"
	"testing"

	"github.com/gopacket/gopacket"
)

func probeNoPanic(t *testing.T, name string, f func()) {
	defer func() {
		if r := recover(); r != nil {
			t.Errorf("%s: panic: %v", name, r)
		}
	}()
	f()
}

func TestProbeC01Renderers(t *testing.T) {
	// 1. TCP header with an MPTCP option (kind 30) whose length byte is too short for its subtype
	tcp, _ := hex.DecodeString("04d2162e0000000000000000600200000000000" + "01e030000")
	probeNoPanic(t, "tcp mptcp bad length String", func() {
		p := gopacket.NewPacket(tcp, LayerTypeTCP, gopacket.Default)
		_ = p.String()
	})
	// 3. TCP shorter than 20 bytes: flow rendering
	probeNoPanic(t, "short tcp TransportFlow", func() {
		p := gopacket.NewPacket([]byte{1, 2, 3, 4, 5}, LayerTypeTCP, gopacket.Default)
		if tl := p.TransportLayer(); tl != nil {
			_ = tl.TransportFlow().Src().String()
			_ = tl.TransportFlow().String()
		}
		_ = p.String()
	})
	// 4. DHCPv6 with an odd-length ORO option (option 6) as last option
	d6, _ := hex.DecodeString("01aabbcc" + "00060003000102")
	probeNoPanic(t, "dhcpv6 odd ORO String", func() {
		p := gopacket.NewPacket(d6, LayerTypeDHCPv6, gopacket.Default)
		_ = p.String()
	})
}
