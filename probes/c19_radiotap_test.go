package layers

import (
	"bytes"
	"encoding/binary"
	"testing"

	"github.com/gopacket/gopacket"
)

func ag1try(t *testing.T, name string, f func()) {
	defer func() {
		if r := recover(); r != nil {
			t.Errorf("%s: PANIC %v", name, r)
		}
	}()
	f()
}

// A: 65535 bytes of 0xff: every present word has the EXT bit; at offset 65532 the uint16 test offset+4 > dataLen wraps.
func TestAG1RadioTapPresentWrap(t *testing.T) {
	data := bytes.Repeat([]byte{0xff}, 65535)
	ag1try(t, "presentwrap", func() {
		var r RadioTap
		t.Logf("err=%v", r.DecodeFromBytes(data, gopacket.NilDecodeFeedback))
	})
}

// B: Datapad flag set and no (or a short) payload behind the header.
func TestAG1RadioTapDatapadShort(t *testing.T) {
	for _, tail := range [][]byte{{}, {0x08}, {0x88, 0x03}, {0x88, 0x00, 0, 0}} {
		data := []byte{0, 0, 9, 0, 2, 0, 0, 0, 0x20}
		data = append(data, tail...)
		data = data[:len(data):len(data)]
		ag1try(t, "datapad", func() {
			var r RadioTap
			t.Logf("tail=%x err=%v", tail, r.DecodeFromBytes(data, gopacket.NilDecodeFeedback))
		})
	}
}

// C: more than 64 KiB of data: a vendor namespace skips to offset 65528, the next radiotap namespace reads a TSFT
// at data[65528:65528+8] where the uint16 upper bound wraps to 0.
func TestAG1RadioTapNamespaceWrap(t *testing.T) {
	data := make([]byte, 65536+64)
	binary.LittleEndian.PutUint16(data[2:], 16)
	binary.LittleEndian.PutUint32(data[4:], 0x80000000|0x40000000)  // EXT, next is a vendor namespace
	binary.LittleEndian.PutUint32(data[8:], 0x80000000|0x20000000)  // EXT, next is a radiotap namespace
	binary.LittleEndian.PutUint32(data[12:], 0x00000001)            // TSFT
	binary.LittleEndian.PutUint16(data[22:], 65528-24)              // vendor skip length
	ag1try(t, "nswrap", func() {
		var r RadioTap
		t.Logf("err=%v", r.DecodeFromBytes(data, gopacket.NilDecodeFeedback))
	})
}
