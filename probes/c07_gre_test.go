package layers

import (
	"bytes"
	"testing"

	"github.com/gopacket/gopacket"
)

// dirtyBuffer returns a serialize buffer whose backing store is filled with 0xAA and then cleared.
func ag5DirtyBuffer(t *testing.T, n int) gopacket.SerializeBuffer {
	b := gopacket.NewSerializeBuffer()
	p, err := b.PrependBytes(n)
	if err != nil {
		t.Fatal(err)
	}
	for i := range p {
		p[i] = 0xAA
	}
	if err := b.Clear(); err != nil {
		t.Fatal(err)
	}
	return b
}

func ag5Both(t *testing.T, mk func() gopacket.SerializableLayer) (fresh, dirty []byte) {
	fb := gopacket.NewSerializeBuffer()
	if err := mk().SerializeTo(fb, gopacket.SerializeOptions{}); err != nil {
		t.Fatalf("fresh: %v", err)
	}
	db := ag5DirtyBuffer(t, 256)
	if err := mk().SerializeTo(db, gopacket.SerializeOptions{}); err != nil {
		t.Fatalf("dirty: %v", err)
	}
	return fb.Bytes(), db.Bytes()
}

// Routing + Ack: the NULL SRE is written but offset is not advanced, so Ack overwrites it and
// the last 4 bytes obtained from PrependBytes are never written.
func TestAg5GRERoutingAck(t *testing.T) {
	fresh, dirty := ag5Both(t, func() gopacket.SerializableLayer {
		return &GRE{RoutingPresent: true, AckPresent: true, Ack: 0x01020304, Protocol: EthernetTypeIPv4}
	})
	t.Logf("fresh % x", fresh)
	t.Logf("dirty % x", dirty)
	if !bytes.Equal(fresh, dirty) {
		t.Errorf("output depends on previous buffer contents")
	}
	var g GRE
	if err := g.DecodeFromBytes(fresh, gopacket.NilDecodeFeedback); err != nil {
		t.Errorf("decode of fresh: %v", err)
	} else if g.Ack != 0x01020304 {
		t.Errorf("round trip: Ack = %#x, want 0x01020304", g.Ack)
	}
}

// SRELength larger than len(RoutingInformation): copy writes fewer bytes than were reserved.
func TestAg5GRERoutingShortInfo(t *testing.T) {
	fresh, dirty := ag5Both(t, func() gopacket.SerializableLayer {
		return &GRE{RoutingPresent: true, Protocol: EthernetTypeIPv4,
			GRERouting: &GRERouting{AddressFamily: 1, SRELength: 8, RoutingInformation: []byte{1, 2}}}
	})
	t.Logf("fresh % x", fresh)
	t.Logf("dirty % x", dirty)
	if !bytes.Equal(fresh, dirty) {
		t.Errorf("output depends on previous buffer contents")
	}
}
