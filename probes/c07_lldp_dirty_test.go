package layers

import (
	"bytes"
	"testing"

	"github.com/gopacket/gopacket"
)

// C07: the bytes written depend only on the layer, not on what the buffer held before.
func TestProbeLLDPValueShorterThanLength(t *testing.T) {
	l := &LinkLayerDiscovery{
		ChassisID: LLDPChassisID{Subtype: LLDPChassisIDSubTypeMACAddr, ID: []byte{1, 2, 3, 4, 5, 6}},
		PortID:    LLDPPortID{Subtype: LLDPPortIDSubtypeIfaceName, ID: []byte("1")},
		TTL:       120,
		Values:    []LinkLayerDiscoveryValue{{Type: 127, Length: 8, Value: []byte{1, 2}}},
	}
	fresh := gopacket.NewSerializeBuffer()
	if err := l.SerializeTo(fresh, gopacket.SerializeOptions{}); err != nil {
		t.Fatal(err)
	}
	want := append([]byte{}, fresh.Bytes()...)
	dirty := gopacket.NewSerializeBuffer()
	junk, _ := dirty.AppendBytes(200)
	for i := range junk {
		junk[i] = 0xaa
	}
	dirty.Clear()
	if err := l.SerializeTo(dirty, gopacket.SerializeOptions{}); err != nil {
		t.Fatal(err)
	}
	if !bytes.Equal(want, dirty.Bytes()) {
		t.Fatalf("output depends on buffer history:\nfresh %x\ndirty %x", want, dirty.Bytes())
	}
}
