package layers

import (
	"bytes"
	"fmt"
	"testing"

	"github.com/gopacket/gopacket"
)

func ag5Try(f func() error) (err error, panicked interface{}) {
	defer func() { panicked = recover() }()
	err = f()
	return
}

// A present word without the corresponding RadioTapValues entry: index out of range.
func TestAg5RadioTapMissingValues(t *testing.T) {
	rt := RadioTap{Present: []RadioTapPresent{RadioTapPresentFlags}}
	err, p := ag5Try(func() error { return rt.SerializeTo(gopacket.NewSerializeBuffer(), gopacket.SerializeOptions{}) })
	if p != nil {
		t.Errorf("panic: %v", p)
	}
	_ = err
}

// Vendor namespace announced but no VendorValues.
func TestAg5RadioTapMissingVendor(t *testing.T) {
	rt := RadioTap{Present: []RadioTapPresent{RadioTapPresentVendorNamespace | RadioTapPresentEXT, 0},
		RadioTapValues: []RadioTapNamespace{{}}}
	_, p := ag5Try(func() error { return rt.SerializeTo(gopacket.NewSerializeBuffer(), gopacket.SerializeOptions{}) })
	if p != nil {
		t.Errorf("panic: %v", p)
	}
}

// More present words than the 1024-byte scratch buffer holds.
func TestAg5RadioTapManyPresent(t *testing.T) {
	rt := RadioTap{Present: make([]RadioTapPresent, 256), RadioTapValues: make([]RadioTapNamespace, 256)}
	_, p := ag5Try(func() error { return rt.SerializeTo(gopacket.NewSerializeBuffer(), gopacket.SerializeOptions{}) })
	if p != nil {
		t.Errorf("panic: %v", p)
	}
}

// Field data overflowing the 1024-byte scratch buffer.
func TestAg5RadioTapManyNamespaces(t *testing.T) {
	n := 40
	rt := RadioTap{}
	for i := 0; i < n; i++ {
		rt.Present = append(rt.Present, RadioTapPresentTSFT|RadioTapPresentVHT|RadioTapPresentHE|RadioTapPresentTimestamp|RadioTapPresentAMPDUStatus|
			RadioTapPresentChannel|RadioTapPresentRadioTapNamespace|RadioTapPresentEXT)
		rt.RadioTapValues = append(rt.RadioTapValues, RadioTapNamespace{})
	}
	_, p := ag5Try(func() error { return rt.SerializeTo(gopacket.NewSerializeBuffer(), gopacket.SerializeOptions{}) })
	if p != nil {
		t.Errorf("panic: %v", p)
	}
}

// Vendor namespace with a short OUI.
func TestAg5RadioTapShortOUI(t *testing.T) {
	rt := RadioTap{Present: []RadioTapPresent{RadioTapPresentVendorNamespace | RadioTapPresentEXT, 0},
		RadioTapValues: []RadioTapNamespace{{}}, VendorValues: []VendorNamespace{{}}}
	_, p := ag5Try(func() error { return rt.SerializeTo(gopacket.NewSerializeBuffer(), gopacket.SerializeOptions{}) })
	if p != nil {
		t.Errorf("panic: %v", p)
	}
}

// Vendor namespace with SkipLength beyond the scratch buffer: PrependBytes(offset) hands out more bytes
// than copy(packetBuf, buf) writes.
func TestAg5RadioTapVendorSkip(t *testing.T) {
	mk := func() RadioTap {
		return RadioTap{Present: []RadioTapPresent{RadioTapPresentVendorNamespace | RadioTapPresentEXT, 0},
			RadioTapValues: []RadioTapNamespace{{}},
			VendorValues:   []VendorNamespace{{OUI: []byte{1, 2, 3}, SkipLength: 1500, Contents: make([]byte, 1500)}}}
	}
	fb := gopacket.NewSerializeBuffer()
	err, p := ag5Try(func() error { return mk().SerializeTo(fb, gopacket.SerializeOptions{FixLengths: true}) })
	if p != nil || err != nil {
		t.Fatalf("fresh: err=%v panic=%v", err, p)
	}
	db := ag5DirtyBuffer(t, 4096)
	err, p = ag5Try(func() error { return mk().SerializeTo(db, gopacket.SerializeOptions{FixLengths: true}) })
	if p != nil || err != nil {
		t.Fatalf("dirty: err=%v panic=%v", err, p)
	}
	if !bytes.Equal(fb.Bytes(), db.Bytes()) {
		i := 0
		for i < len(fb.Bytes()) && fb.Bytes()[i] == db.Bytes()[i] {
			i++
		}
		t.Errorf("output depends on previous buffer contents: len %d, first difference at %d: %s", len(db.Bytes()), i, fmt.Sprintf("% x", db.Bytes()[i:i+8]))
	}
}
