package layers

import (
	"bytes"
	"testing"

	"github.com/gopacket/gopacket"
)

// D: Datapad flag + QoS data frame (header length 26, 26%4 == 2): the two padding bytes are removed by
// append(payload[:headlen], payload[headlen+2:]...), which shifts the rest of the frame inside the CALLER's buffer.
func TestAG1RadioTapDatapadWritesInput(t *testing.T) {
	hdr := []byte{0, 0, 9, 0, 2, 0, 0, 0, 0x20 | 0x10} // Flags present; Datapad|FCS
	frame := make([]byte, 40)
	frame[0] = 0x88 // QoS data
	for i := 2; i < len(frame); i++ {
		frame[i] = byte(i)
	}
	data := append(append([]byte{}, hdr...), frame...)
	orig := append([]byte{}, data...)
	p := gopacket.NewPacket(data, LayerTypeRadioTap, gopacket.DecodeOptions{NoCopy: true})
	_ = p.Layers()
	if !bytes.Equal(orig, data) {
		t.Errorf("input buffer modified by decoding:\n before %x\n after  %x", orig, data)
	}
}
