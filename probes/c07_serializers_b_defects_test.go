package layers

import (
	"bytes"
	"errors"
	"fmt"
	"net"
	"testing"

	"github.com/gopacket/gopacket"
)

// ag6Panics runs f and returns the recovered panic value (nil if none).
func ag6Panics(f func()) (r interface{}) {
	defer func() { r = recover() }()
	f()
	return nil
}

// ag6FreshVsDirty serializes l into a fresh buffer and into a buffer that held 0xAA bytes before Clear().
func ag6FreshVsDirty(t *testing.T, mk func() gopacket.SerializableLayer, opts gopacket.SerializeOptions) {
	t.Helper()
	fresh := gopacket.NewSerializeBuffer()
	if err := mk().SerializeTo(fresh, opts); err != nil {
		t.Skipf("serialize error: %v", err)
	}
	dirty := gopacket.NewSerializeBuffer()
	d, _ := dirty.PrependBytes(4096)
	for i := range d {
		d[i] = 0xAA
	}
	a, _ := dirty.AppendBytes(4096)
	for i := range a {
		a[i] = 0xAA
	}
	dirty.Clear()
	if err := mk().SerializeTo(dirty, opts); err != nil {
		t.Fatalf("serialize error: %v", err)
	}
	if !bytes.Equal(fresh.Bytes(), dirty.Bytes()) {
		t.Errorf("output depends on buffer history:\n fresh %x\n dirty %x", fresh.Bytes(), dirty.Bytes())
	}
}

func TestAg6IPv4OptionSizeWrapPanics(t *testing.T) {
	ip := &IPv4{Version: 4, SrcIP: net.IP{1, 2, 3, 4}, DstIP: net.IP{5, 6, 7, 8},
		Options: []IPv4Option{{OptionType: 7, OptionLength: 128, OptionData: make([]byte, 126)}, {OptionType: 7, OptionLength: 128, OptionData: make([]byte, 126)}}}
	if r := ag6Panics(func() { ip.SerializeTo(gopacket.NewSerializeBuffer(), gopacket.SerializeOptions{}) }); r != nil {
		t.Errorf("IPv4.SerializeTo panicked: %v", r)
	}
}

func TestAg6IPv4OptionPaddingInit(t *testing.T) {
	ag6FreshVsDirty(t, func() gopacket.SerializableLayer {
		return &IPv4{Version: 4, SrcIP: net.IP{1, 2, 3, 4}, DstIP: net.IP{5, 6, 7, 8}, Options: []IPv4Option{{OptionType: 1}}}
	}, gopacket.SerializeOptions{FixLengths: true})
}

func TestAg6BFDUnknownAuthTypePanics(t *testing.T) {
	d := &BFD{AuthPresent: true, AuthHeader: &BFDAuthHeader{AuthType: BFDAuthTypeNone}}
	if r := ag6Panics(func() { d.SerializeTo(gopacket.NewSerializeBuffer(), gopacket.SerializeOptions{}) }); r != nil {
		t.Errorf("BFD.SerializeTo panicked: %v", r)
	}
}

func TestAg6STPPanics(t *testing.T) {
	if r := ag6Panics(func() {
		(&STP{RouteID: STPSwitchID{Priority: 1}}).SerializeTo(gopacket.NewSerializeBuffer(), gopacket.SerializeOptions{})
	}); r != nil {
		t.Errorf("STP.SerializeTo (priority 1) panicked: %v", r)
	}
	if r := ag6Panics(func() {
		(&STP{RouteID: STPSwitchID{Priority: 4096, SysID: 4096}, BridgeID: STPSwitchID{Priority: 4096}}).SerializeTo(gopacket.NewSerializeBuffer(), gopacket.SerializeOptions{})
	}); r != nil {
		t.Errorf("STP.SerializeTo (SysID 4096) panicked: %v", r)
	}
}

func TestAg6STPInit(t *testing.T) {
	ag6FreshVsDirty(t, func() gopacket.SerializableLayer { return &STP{RouteID: STPSwitchID{Priority: 4096}, BridgeID: STPSwitchID{Priority: 4096}} }, gopacket.SerializeOptions{})
}

func TestAg6RadioTapPanics(t *testing.T) {
	if r := ag6Panics(func() {
		RadioTap{Present: []RadioTapPresent{0}}.SerializeTo(gopacket.NewSerializeBuffer(), gopacket.SerializeOptions{})
	}); r != nil {
		t.Errorf("RadioTap.SerializeTo (no RadioTapValues) panicked: %v", r)
	}
	if r := ag6Panics(func() {
		RadioTap{Present: make([]RadioTapPresent, 256), RadioTapValues: make([]RadioTapNamespace, 256)}.SerializeTo(gopacket.NewSerializeBuffer(), gopacket.SerializeOptions{})
	}); r != nil {
		t.Errorf("RadioTap.SerializeTo (256 present words) panicked: %v", r)
	}
	// vendor namespace with nil OUI
	if r := ag6Panics(func() {
		RadioTap{Present: []RadioTapPresent{RadioTapPresentVendorNamespace | RadioTapPresentEXT, 0}, RadioTapValues: make([]RadioTapNamespace, 1), VendorValues: make([]VendorNamespace, 1)}.SerializeTo(gopacket.NewSerializeBuffer(), gopacket.SerializeOptions{})
	}); r != nil {
		t.Errorf("RadioTap.SerializeTo (vendor namespace, nil OUI) panicked: %v", r)
	}
	// vendor namespace with a skip length beyond the 1024-byte scratch buffer
	if r := ag6Panics(func() {
		RadioTap{Present: []RadioTapPresent{RadioTapPresentVendorNamespace | RadioTapPresentEXT, RadioTapPresentVendorNamespace | RadioTapPresentEXT, 0}, RadioTapValues: make([]RadioTapNamespace, 1),
			VendorValues: []VendorNamespace{{OUI: []byte{1, 2, 3}, SkipLength: 2000}, {OUI: []byte{1, 2, 3}}}}.SerializeTo(gopacket.NewSerializeBuffer(), gopacket.SerializeOptions{})
	}); r != nil {
		t.Errorf("RadioTap.SerializeTo (vendor SkipLength 2000) panicked: %v", r)
	}
}

func TestAg6RadioTapInit(t *testing.T) {
	ag6FreshVsDirty(t, func() gopacket.SerializableLayer {
		return &RadioTap{Present: []RadioTapPresent{RadioTapPresentVendorNamespace | RadioTapPresentEXT, 0}, RadioTapValues: make([]RadioTapNamespace, 1),
			VendorValues: []VendorNamespace{{OUI: []byte{1, 2, 3}, SkipLength: 2000}}}
	}, gopacket.SerializeOptions{})
}

func TestAg6SCTPUnknownChunkNegativeLength(t *testing.T) {
	if r := ag6Panics(func() {
		SCTPUnknownChunkType{SCTPChunk: SCTPChunk{ActualLength: -1}}.SerializeTo(gopacket.NewSerializeBuffer(), gopacket.SerializeOptions{})
	}); r != nil {
		t.Errorf("SCTPUnknownChunkType.SerializeTo panicked: %v", r)
	}
}

func TestAg6SCTPInit(t *testing.T) {
	t.Run("SCTP", func(t *testing.T) {
		ag6FreshVsDirty(t, func() gopacket.SerializableLayer { return &SCTP{SrcPort: 1, DstPort: 2, Checksum: 0x01020304} }, gopacket.SerializeOptions{})
	})
	t.Run("SCTPData", func(t *testing.T) {
		ag6FreshVsDirty(t, func() gopacket.SerializableLayer {
			d := SCTPData{}
			d.Payload = []byte{1}
			return &d
		}, gopacket.SerializeOptions{})
	})
	t.Run("SCTPSack", func(t *testing.T) {
		ag6FreshVsDirty(t, func() gopacket.SerializableLayer { return &SCTPSack{GapACKs: []uint16{1}} }, gopacket.SerializeOptions{})
	})
	t.Run("SCTPUnknownChunkType", func(t *testing.T) {
		ag6FreshVsDirty(t, func() gopacket.SerializableLayer { return &SCTPUnknownChunkType{SCTPChunk: SCTPChunk{ActualLength: 8}} }, gopacket.SerializeOptions{})
	})
}

func TestAg6DHCPv6Init(t *testing.T) {
	t.Run("relay-nil-addrs", func(t *testing.T) {
		ag6FreshVsDirty(t, func() gopacket.SerializableLayer { return &DHCPv6{MsgType: DHCPv6MsgTypeRelayForward} }, gopacket.SerializeOptions{})
	})
	t.Run("short-transaction-id", func(t *testing.T) {
		ag6FreshVsDirty(t, func() gopacket.SerializableLayer { return &DHCPv6{MsgType: DHCPv6MsgTypeSolicit} }, gopacket.SerializeOptions{})
	})
	t.Run("option-length-larger-than-data", func(t *testing.T) {
		ag6FreshVsDirty(t, func() gopacket.SerializableLayer {
			return &DHCPv6{MsgType: DHCPv6MsgTypeSolicit, TransactionID: []byte{1, 2, 3}, Options: DHCPv6Options{{Code: 1, Length: 8, Data: []byte{1}}}}
		}, gopacket.SerializeOptions{FixLengths: true})
	})
}

func TestAg6DNSAddressInit(t *testing.T) {
	t.Run("A-with-nil-IP", func(t *testing.T) {
		ag6FreshVsDirty(t, func() gopacket.SerializableLayer {
			return &DNS{Answers: []DNSResourceRecord{{Name: []byte("a"), Type: DNSTypeA, Class: DNSClassIN}}}
		}, gopacket.SerializeOptions{FixLengths: true})
	})
	t.Run("AAAA-with-4-byte-IP", func(t *testing.T) {
		ag6FreshVsDirty(t, func() gopacket.SerializableLayer {
			return &DNS{Answers: []DNSResourceRecord{{Name: []byte("a"), Type: DNSTypeAAAA, Class: DNSClassIN, IP: net.IP{1, 2, 3, 4}}}}
		}, gopacket.SerializeOptions{FixLengths: true})
	})
}

// a SerializeBuffer whose PrependBytes fails (allowed by the interface: it returns an error)
type ag6FailingBuffer struct{ gopacket.SerializeBuffer }

func (ag6FailingBuffer) PrependBytes(int) ([]byte, error) { return nil, errors.New("no room") }

func TestAg6EAPOLIgnoresPrependError(t *testing.T) {
	if r := ag6Panics(func() {
		(&EAPOL{}).SerializeTo(ag6FailingBuffer{gopacket.NewSerializeBuffer()}, gopacket.SerializeOptions{})
	}); r != nil {
		t.Errorf("EAPOL.SerializeTo panicked: %v", r)
	}
}

var _ = fmt.Sprint
