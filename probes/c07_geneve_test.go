package layers

import (
	"testing"

	"github.com/gopacket/gopacket"
)

// A nil entry in Options (a []*GeneveOption) is dereferenced without a check.
func TestAg5GeneveNilOption(t *testing.T) {
	g := &Geneve{Options: []*GeneveOption{nil}}
	var p interface{}
	func() {
		defer func() { p = recover() }()
		_ = g.SerializeTo(gopacket.NewSerializeBuffer(), gopacket.SerializeOptions{})
	}()
	if p != nil {
		t.Errorf("panic: %v", p)
	}
}
