package layers

import (
	"encoding/binary"
	"testing"

	"github.com/gopacket/gopacket"
)

// An OSPF Link State Update carried in a buffer larger than 4 GiB: the running LSA offset is a uint32, so
// offset+k wraps around and a slice expression gets low > high.
func buildHugeLSU(hdr int, typeOff int, lstype []byte, lastLen int) []byte {
	total := hdr + (1 << 32) + 64
	data := make([]byte, total)
	off := hdr
	put := func(l int) {
		copy(data[off+typeOff:], lstype)
		binary.BigEndian.PutUint16(data[off+18:], uint16(l))
		off += l
	}
	for i := 0; i < 65536; i++ {
		put(65535)
	}
	put(lastLen)
	return data
}

func TestAG1OSPFv3HugeLSU(t *testing.T) {
	// 65536*65535 + 65533 = 2^32-3: data[offset+2:offset+4] becomes data[4294967295:1]
	data := buildHugeLSU(20, 2, []byte{0x20, 0x04}, 65533)
	data[0], data[1] = 3, 4
	binary.BigEndian.PutUint32(data[16:], 65538)
	var o OSPFv3
	err := o.DecodeFromBytes(data, gopacket.NilDecodeFeedback)
	t.Logf("err=%v", err)
}

func TestAG1OSPFv2HugeLSU(t *testing.T) {
	// 65536*65535 + 65517 = 2^32-19: data[offset+18:offset+20] becomes data[4294967295:1]
	data := buildHugeLSU(28, 3, []byte{0x05}, 65517)
	data[0], data[1] = 2, 4
	binary.BigEndian.PutUint32(data[24:], 65538)
	var o OSPFv2
	err := o.DecodeFromBytes(data, gopacket.NilDecodeFeedback)
	t.Logf("err=%v", err)
}
