package layers

import (
	"bytes"
	"net"
	"testing"

	"github.com/gopacket/gopacket"
)

// dirtyBuffer returns a serialize buffer whose backing store held 0xAA bytes and was then Clear()ed.
func ag10DirtyBuffer(t *testing.T) gopacket.SerializeBuffer {
	b := gopacket.NewSerializeBuffer()
	w, err := b.PrependBytes(512)
	if err != nil {
		t.Fatal(err)
	}
	for i := range w {
		w[i] = 0xAA
	}
	w, err = b.AppendBytes(512)
	if err != nil {
		t.Fatal(err)
	}
	for i := range w {
		w[i] = 0xAA
	}
	if err := b.Clear(); err != nil {
		t.Fatal(err)
	}
	return b
}

func ag10Compare(t *testing.T, name string, ser func(b gopacket.SerializeBuffer) error) {
	fresh := gopacket.NewSerializeBuffer()
	if err := ser(fresh); err != nil {
		t.Logf("%s: fresh buffer: error %v (no output)", name, err)
		return
	}
	dirty := ag10DirtyBuffer(t)
	if err := ser(dirty); err != nil {
		t.Fatalf("%s: dirty buffer: %v", name, err)
	}
	if !bytes.Equal(fresh.Bytes(), dirty.Bytes()) {
		t.Errorf("%s: output depends on previous buffer contents\n fresh: %x\n dirty: %x", name, fresh.Bytes(), dirty.Bytes())
	}
}

func TestAg10IPv6RoutingReserved(t *testing.T) {
	opts := gopacket.SerializeOptions{FixLengths: true}
	ag10Compare(t, "IPv6Routing{Reserved:nil}", func(b gopacket.SerializeBuffer) error {
		r := &IPv6Routing{RoutingType: 0, SegmentsLeft: 1, SourceRoutingIPs: []net.IP{net.ParseIP("2001:db8::1")}}
		return r.SerializeTo(b, opts)
	})
}

func TestAg10IPv6RoutingBadIP(t *testing.T) {
	opts := gopacket.SerializeOptions{FixLengths: true}
	ag10Compare(t, "IPv6Routing{SourceRoutingIPs:[5-byte IP]}", func(b gopacket.SerializeBuffer) error {
		r := &IPv6Routing{Reserved: []byte{0, 0, 0, 0}, SourceRoutingIPs: []net.IP{{1, 2, 3, 4, 5}}}
		return r.SerializeTo(b, opts)
	})
}

func TestAg10IPv6HopByHopOptionLength(t *testing.T) {
	// FixLengths off, OptionLength larger than the data: the slot is OptionLength+2 bytes, only len(OptionData) are written
	opts := gopacket.SerializeOptions{}
	ag10Compare(t, "IPv6HopByHop{OptionLength 4, 1 data byte}", func(b gopacket.SerializeBuffer) error {
		h := &IPv6HopByHop{Options: []*IPv6HopByHopOption{{OptionType: 0x1e, OptionLength: 4, OptionData: []byte{1}}}}
		return h.SerializeTo(b, opts)
	})
	ag10Compare(t, "IPv6Destination{OptionLength 4, 1 data byte}", func(b gopacket.SerializeBuffer) error {
		h := &IPv6Destination{Options: []*IPv6DestinationOption{{OptionType: 0x1e, OptionLength: 4, OptionData: []byte{1}}}}
		return h.SerializeTo(b, opts)
	})
}

func TestAg10ICMPv6ShortTarget(t *testing.T) {
	opts := gopacket.SerializeOptions{FixLengths: true}
	ag10Compare(t, "ICMPv6NeighborSolicitation{TargetAddress: 4 bytes}", func(b gopacket.SerializeBuffer) error {
		return (&ICMPv6NeighborSolicitation{TargetAddress: net.IP{10, 0, 0, 1}}).SerializeTo(b, opts)
	})
	ag10Compare(t, "ICMPv6NeighborAdvertisement{TargetAddress: nil}", func(b gopacket.SerializeBuffer) error {
		return (&ICMPv6NeighborAdvertisement{Flags: 0x40}).SerializeTo(b, opts)
	})
	ag10Compare(t, "ICMPv6Redirect{DestinationAddress: 4 bytes}", func(b gopacket.SerializeBuffer) error {
		return (&ICMPv6Redirect{TargetAddress: net.ParseIP("fe80::1"), DestinationAddress: net.IP{10, 0, 0, 1}}).SerializeTo(b, opts)
	})
}

func TestAg10NilOptionPanics(t *testing.T) {
	defer func() {
		if r := recover(); r != nil {
			t.Errorf("IPv6HopByHop.SerializeTo panicked on a nil option: %v", r)
		}
	}()
	h := &IPv6HopByHop{Options: []*IPv6HopByHopOption{nil}}
	_ = h.SerializeTo(gopacket.NewSerializeBuffer(), gopacket.SerializeOptions{FixLengths: true})
}

func TestAg10HopByHopFixLengthsPadding(t *testing.T) {
	// FixLengths is supposed to pad the header to a multiple of 8 bytes
	h := &IPv6HopByHop{Options: []*IPv6HopByHopOption{{OptionType: 0x1e, OptionData: []byte{1}}}}
	if err := h.SerializeTo(gopacket.NewSerializeBuffer(), gopacket.SerializeOptions{FixLengths: true}); err != nil {
		t.Errorf("IPv6HopByHop with one 1-byte option and FixLengths: %v", err)
	}
}
