package pcapgo

import (
	"bytes"
	"encoding/binary"
	"testing"
)

func TestProbeSnoopTrunc(t *testing.T) {
	hdr := []byte{0x73, 0x6e, 0x6f, 0x6f, 0x70, 0, 0, 0, 0, 0, 0, 2, 0, 0, 0, 4}
	rec := make([]byte, 24+60)
	binary.BigEndian.PutUint32(rec[0:], 100)
	binary.BigEndian.PutUint32(rec[4:], 60)
	binary.BigEndian.PutUint32(rec[8:], 84)
	buf := append(append([]byte{}, hdr...), rec...)
	r, err := NewSnoopReader(bytes.NewReader(buf))
	if err != nil {
		t.Fatal(err)
	}
	defer func() {
		if x := recover(); x != nil {
			t.Fatalf("panic: %v", x)
		}
	}()
	d, ci, err := r.ReadPacketData()
	t.Logf("len=%d ci=%+v err=%v", len(d), ci, err)
	if err != nil || len(d) != 60 {
		t.Fatalf("want 60 bytes")
	}
}
