package layers

import (
	"bytes"
	"testing"

	"github.com/gopacket/gopacket"
)

func ag5DHCP(opts ...DHCPOption) *DHCPv4 {
	return &DHCPv4{Operation: DHCPOpRequest, HardwareType: LinkTypeEthernet, ClientHWAddr: []byte{1, 2, 3, 4, 5, 6}, Options: opts}
}

// Len() accumulates in a uint16: 300 options of 255 bytes wrap it and PrependBytes gets too few bytes.
func TestAg5DHCPv4LenWrap(t *testing.T) {
	var o []DHCPOption
	for i := 0; i < 300; i++ {
		o = append(o, NewDHCPOption(DHCPOptVendorOption, make([]byte, 255)))
	}
	err, p := ag5Try(func() error { return ag5DHCP(o...).SerializeTo(gopacket.NewSerializeBuffer(), gopacket.SerializeOptions{}) })
	if p != nil {
		t.Errorf("panic: %v (err %v)", p, err)
	}
}

// Length smaller than len(Data): Len() counts Length, the loop advances by len(Data).
func TestAg5DHCPv4ShortLength(t *testing.T) {
	o := DHCPOption{Type: DHCPOptHostname, Length: 0, Data: []byte("0123456789")}
	_, p := ag5Try(func() error { return ag5DHCP(o).SerializeTo(gopacket.NewSerializeBuffer(), gopacket.SerializeOptions{}) })
	if p != nil {
		t.Errorf("panic: %v", p)
	}
}

func ag5DHCPBoth(t *testing.T, o DHCPOption) {
	fb := gopacket.NewSerializeBuffer()
	if err := ag5DHCP(o).SerializeTo(fb, gopacket.SerializeOptions{}); err != nil {
		t.Fatal(err)
	}
	db := ag5DirtyBuffer(t, 1024)
	if err := ag5DHCP(o).SerializeTo(db, gopacket.SerializeOptions{}); err != nil {
		t.Fatal(err)
	}
	if !bytes.Equal(fb.Bytes(), db.Bytes()) {
		t.Errorf("output depends on previous buffer contents:\nfresh % x\ndirty % x", fb.Bytes()[236:], db.Bytes()[236:])
	}
}

// Length larger than len(Data): trailing bytes are reserved but never written.
func TestAg5DHCPv4LongLength(t *testing.T) {
	ag5DHCPBoth(t, DHCPOption{Type: DHCPOptHostname, Length: 10, Data: []byte("a")})
}

// An explicit End option in Options is counted as 2 bytes but only 1 is written.
func TestAg5DHCPv4EndOption(t *testing.T) {
	ag5DHCPBoth(t, NewDHCPOption(DHCPOptEnd, nil))
}

// Plain, well-formed packet: fixed fields shorter than their slot (nil IPs, 6-byte MAC, empty sname/file).
func TestAg5DHCPv4FixedFields(t *testing.T) {
	o := NewDHCPOption(DHCPOptMessageType, []byte{1})
	fb := gopacket.NewSerializeBuffer()
	if err := ag5DHCP(o).SerializeTo(fb, gopacket.SerializeOptions{}); err != nil {
		t.Fatal(err)
	}
	db := ag5DirtyBuffer(t, 1024)
	if err := ag5DHCP(o).SerializeTo(db, gopacket.SerializeOptions{}); err != nil {
		t.Fatal(err)
	}
	if !bytes.Equal(fb.Bytes(), db.Bytes()) {
		t.Errorf("output depends on previous buffer contents:\nfresh % x\ndirty % x", fb.Bytes()[:48], db.Bytes()[:48])
	}
}
