package layers

import (
	"testing"

	"github.com/gopacket/gopacket"
)

func cdpTLV(typ uint16, val []byte) []byte {
	l := 4 + len(val)
	return append([]byte{byte(typ >> 8), byte(typ), byte(l >> 8), byte(l)}, val...)
}

func TestAg2CDP(t *testing.T) {
	opts := gopacket.DecodeOptions{SkipDecodeRecovery: true}
	cases := map[string][]byte{
		"addr-addrlen-ffff":  cdpTLV(2, []byte{0, 0, 0, 1, 1, 1, 0xcc, 0xff, 0xff, 0, 0, 0}),
		"addr-addrlen-fffe":  cdpTLV(2, []byte{0, 0, 0, 1, 1, 1, 0xcc, 0xff, 0xfe, 0, 0, 0}),
		"addr-protlen8":      cdpTLV(2, []byte{0, 0, 0, 1, 2, 8, 0, 0, 0, 0, 0, 0}),
		"addr-protlen3-noaddrlen": cdpTLV(2, []byte{0, 0, 0, 1, 2, 3, 0, 0, 0, 0, 0, 0x7}),
		"ipprefix-33":        cdpTLV(7, []byte{1, 2, 3, 4, 33}),
		"power-req-6":        cdpTLV(0x19, []byte{0, 1, 0, 2, 9, 9}),
		"power-avail-6":      cdpTLV(0x1a, []byte{0, 1, 0, 2, 9, 9}),
	}
	for n, c := range cases {
		t.Log(ag2try(n, func() {
			p := gopacket.NewPacket(c, LayerTypeCiscoDiscoveryInfo, opts)
			_ = p.Layers()
		}))
	}
}
