package pcapgo

import (
	"bytes"
	"encoding/binary"
	"runtime"
	"testing"
)

func ag4le32(v uint32) []byte { b := make([]byte, 4); binary.LittleEndian.PutUint32(b, v); return b }
func ag4le16(v uint16) []byte { b := make([]byte, 2); binary.LittleEndian.PutUint16(b, v); return b }

func ag4block(typ uint32, body []byte) []byte {
	total := uint32(12 + len(body))
	var out []byte
	out = append(out, ag4le32(typ)...)
	out = append(out, ag4le32(total)...)
	out = append(out, body...)
	out = append(out, ag4le32(total)...)
	return out
}

func ag4shb() []byte {
	var body []byte
	body = append(body, ag4le32(0x1A2B3C4D)...)
	body = append(body, ag4le16(1)...)
	body = append(body, ag4le16(0)...)
	body = append(body, 0xff, 0xff, 0xff, 0xff, 0xff, 0xff, 0xff, 0xff)
	return ag4block(0x0A0D0D0A, body)
}

func ag4opt(code uint16, val []byte) []byte {
	var out []byte
	out = append(out, ag4le16(code)...)
	out = append(out, ag4le16(uint16(len(val)))...)
	out = append(out, val...)
	for len(out)%4 != 0 {
		out = append(out, 0)
	}
	return out
}

func ag4idb(opts []byte) []byte {
	var body []byte
	body = append(body, ag4le16(1)...) // ethernet
	body = append(body, ag4le16(0)...)
	body = append(body, ag4le32(0)...) // snaplen
	body = append(body, opts...)
	return ag4block(1, body)
}

func ag4epb(caplen, origlen uint32, data []byte, opts []byte) []byte {
	var body []byte
	body = append(body, ag4le32(0)...)
	body = append(body, ag4le32(0)...)
	body = append(body, ag4le32(0)...)
	body = append(body, ag4le32(caplen)...)
	body = append(body, ag4le32(origlen)...)
	body = append(body, data...)
	for len(body)%4 != 0 {
		body = append(body, 0)
	}
	body = append(body, opts...)
	return ag4block(6, body)
}

func ag4noPanic(t *testing.T, name string, f func()) {
	t.Helper()
	defer func() {
		if e := recover(); e != nil {
			buf := make([]byte, 4096)
			buf = buf[:runtime.Stack(buf, false)]
			t.Errorf("%s: PANIC: %v\n%s", name, e, buf)
		}
	}()
	f()
}

// if_tsresol with an exponent that makes the divisor wrap to 0 (binary 2^64.., decimal 10^64..)
func TestAg4TsresolDivZero(t *testing.T) {
	for _, res := range []byte{0xC0, 0xFF, 64, 127} {
		file := append(ag4shb(), ag4idb(append(ag4opt(9, []byte{res}), ag4opt(0, nil)...))...)
		ag4noPanic(t, "NewNgReader", func() {
			_, err := NewNgReader(bytes.NewReader(file), DefaultNgReaderOptions)
			t.Logf("tsresol %#x: err=%v", res, err)
		})
	}
}

// fixed-size packet options shorter than the type they are decoded as
func TestAg4ShortPacketOption(t *testing.T) {
	for _, code := range []uint16{2, 4, 5, 6} { // flags, dropcount, packetid, queue
		file := append(ag4shb(), ag4idb(nil)...)
		file = append(file, ag4epb(0, 0, nil, append(ag4opt(code, []byte{1}), ag4opt(0, nil)...))...)
		ag4noPanic(t, "ReadPacketData", func() {
			r, err := NewNgReader(bytes.NewReader(file), DefaultNgReaderOptions)
			if err != nil {
				t.Fatal(err)
			}
			_, _, err = r.ReadPacketData()
			t.Logf("option %d: err=%v", code, err)
		})
	}
}

// Resolution() after a read that failed inside a new section (interfaces cleared, none read)
func TestAg4ResolutionAfterFailedSection(t *testing.T) {
	file := append(ag4shb(), ag4idb(nil)...)
	file = append(file, ag4shb()...)
	r, err := NewNgReader(bytes.NewReader(file), DefaultNgReaderOptions)
	if err != nil {
		t.Fatal(err)
	}
	_, _, err = r.ReadPacketData()
	t.Logf("read err=%v", err)
	ag4noPanic(t, "Resolution", func() { _ = r.Resolution() })
}

// stale option value: zero-length if_tsresol takes the first byte of the previous option
func TestAg4StaleZeroLengthOption(t *testing.T) {
	opts := append(ag4opt(2, []byte{9, 'x'}), ag4opt(9, nil)...) // if_name "\x09x", then empty if_tsresol
	opts = append(opts, ag4opt(0, nil)...)
	file := append(ag4shb(), ag4idb(opts)...)
	r, err := NewNgReader(bytes.NewReader(file), DefaultNgReaderOptions)
	if err != nil {
		t.Logf("err=%v (rejected: fine)", err)
		return
	}
	intf, _ := r.Interface(0)
	if intf.TimestampResolution != 6 {
		t.Errorf("empty if_tsresol option read stale byte of previous option: resolution=%d", intf.TimestampResolution)
	}
}

// a 100-byte file claiming a 1 GiB packet
func TestAg4HugeCaptureLength(t *testing.T) {
	file := append(ag4shb(), ag4idb(nil)...)
	file = append(file, ag4epb(1<<30, 1<<30, nil, nil)...)
	r, err := NewNgReader(bytes.NewReader(file), DefaultNgReaderOptions)
	if err != nil {
		t.Fatal(err)
	}
	var m0, m1 runtime.MemStats
	runtime.ReadMemStats(&m0)
	_, _, err = r.ReadPacketData()
	runtime.ReadMemStats(&m1)
	t.Logf("file of %d bytes: err=%v allocated=%d bytes", len(file), err, m1.TotalAlloc-m0.TotalAlloc)
	if m1.TotalAlloc-m0.TotalAlloc > 1<<20 {
		t.Errorf("allocated %d bytes for a %d byte file", m1.TotalAlloc-m0.TotalAlloc, len(file))
	}
}
