package layers

import (
	"testing"

	"github.com/gopacket/gopacket"
)

func TestAg2LLDP(t *testing.T) {
	opts := gopacket.DecodeOptions{SkipDecodeRecovery: true}
	pre := []byte{0x02, 0x02, 0x04, 0x01, 0x04, 0x02, 0x05, 0x01, 0x06, 0x02, 0, 120}
	end := []byte{0, 0}
	mk := func(mgmt []byte) []byte {
		d := append([]byte{}, pre...)
		d = append(d, 0x10, byte(len(mgmt)))
		d = append(d, mgmt...)
		return append(d, end...)
	}
	cases := map[string][]byte{
		"mlen0":   mk([]byte{0, 1, 2, 3, 4, 5, 6, 7, 8}),
		"mlen250": mk([]byte{250, 1, 2, 3, 4, 5, 6, 7, 8}),
		"olen255": mk([]byte{2, 1, 9, 2, 0, 0, 0, 1, 255}),
		"ok":      mk([]byte{2, 1, 9, 2, 0, 0, 0, 1, 0}),
	}
	for n, c := range cases {
		t.Log(ag2try(n, func() {
			p := gopacket.NewPacket(c, LayerTypeLinkLayerDiscovery, opts)
			_ = p.Layers()
			if e := p.ErrorLayer(); e != nil {
				t.Log(n, "error layer:", e.Error())
			}
		}))
	}
}
