// Stale-state probes for property C05 (second sentence): a packet B decoded with
// DecodeFromBytes into a layer object that has already decoded a packet A must give the
// same layer as B decoded into a fresh object. Every test decodes A then B into one
// object, B into a fresh object (both decodes of B must succeed) and compares the two
// objects field by field. A nil slice and an empty slice are treated as equal (several
// decoders in this package reset with s = s[:0]); unexported fields are compared too.
//
// Kept outside the repository copy; copy into repo/layers/ to run:
//   cd repo && go test -vet=off -count=1 -run 'TestStale' ./layers

package layers

import (
	"encoding/binary"
	"fmt"
	"reflect"
	"testing"

	"github.com/gopacket/gopacket"
)

func staleEq(a, b reflect.Value) bool {
	if a.IsValid() != b.IsValid() {
		return false
	}
	if !a.IsValid() {
		return true
	}
	if a.Type() != b.Type() {
		return false
	}
	switch a.Kind() {
	case reflect.Slice, reflect.Array:
		if a.Len() != b.Len() {
			return false
		}
		for i := 0; i < a.Len(); i++ {
			if !staleEq(a.Index(i), b.Index(i)) {
				return false
			}
		}
		return true
	case reflect.Struct:
		for i := 0; i < a.NumField(); i++ {
			if !staleEq(a.Field(i), b.Field(i)) {
				return false
			}
		}
		return true
	case reflect.Ptr, reflect.Interface:
		if a.IsNil() || b.IsNil() {
			return a.IsNil() == b.IsNil()
		}
		return staleEq(a.Elem(), b.Elem())
	case reflect.Map:
		if a.Len() != b.Len() {
			return false
		}
		for _, k := range a.MapKeys() {
			if !staleEq(a.MapIndex(k), b.MapIndex(k)) {
				return false
			}
		}
		return true
	case reflect.Bool:
		return a.Bool() == b.Bool()
	case reflect.Int, reflect.Int8, reflect.Int16, reflect.Int32, reflect.Int64:
		return a.Int() == b.Int()
	case reflect.Uint, reflect.Uint8, reflect.Uint16, reflect.Uint32, reflect.Uint64, reflect.Uintptr:
		return a.Uint() == b.Uint()
	case reflect.Float32, reflect.Float64:
		return a.Float() == b.Float()
	case reflect.String:
		return a.String() == b.String()
	case reflect.Func, reflect.Chan, reflect.UnsafePointer:
		return a.IsNil() == b.IsNil()
	}
	return true
}

// staleDiff lists the (dotted) names of the fields in which the two structs differ; nested
// structs (embedded BaseLayer, ...) are reported per leaf field.
func staleDiff(reused, fresh interface{}) []string {
	var out []string
	var walk func(prefix string, a, b reflect.Value)
	walk = func(prefix string, a, b reflect.Value) {
		for i := 0; i < a.NumField(); i++ {
			name := prefix + a.Type().Field(i).Name
			fa, fb := a.Field(i), b.Field(i)
			if fa.Kind() == reflect.Struct {
				walk(name+".", fa, fb)
				continue
			}
			if !staleEq(fa, fb) {
				out = append(out, name)
			}
		}
	}
	walk("", reflect.ValueOf(reused).Elem(), reflect.ValueOf(fresh).Elem())
	return out
}

type staleDecoder interface {
	DecodeFromBytes(data []byte, df gopacket.DecodeFeedback) error
}

// staleCheck decodes a then b into reused, b into fresh, and reports every differing field.
func staleCheck(t *testing.T, what string, reused, fresh staleDecoder, a, b []byte, ignore ...string) {
	t.Helper()
	if err := reused.DecodeFromBytes(a, gopacket.NilDecodeFeedback); err != nil {
		t.Fatalf("%s: packet A does not decode: %v", what, err)
	}
	if err := reused.DecodeFromBytes(b, gopacket.NilDecodeFeedback); err != nil {
		t.Fatalf("%s: packet B does not decode into the reused object: %v", what, err)
	}
	if err := fresh.DecodeFromBytes(b, gopacket.NilDecodeFeedback); err != nil {
		t.Fatalf("%s: packet B does not decode into a fresh object: %v", what, err)
	}
	var d []string
	for _, f := range staleDiff(reused, fresh) {
		skip := false
		for _, ig := range ignore {
			skip = skip || f == ig
		}
		if !skip {
			d = append(d, f)
		}
	}
	if len(d) > 0 {
		t.Errorf("%s: reused object differs from fresh object in %v\n  A = %s\n  B = %s\n  reused: %s\n  fresh:  %s", what, d,
			clip(fmt.Sprintf("%x", a)), clip(fmt.Sprintf("%x", b)), clip(fmt.Sprintf("%+v", reused)), clip(fmt.Sprintf("%+v", fresh)))
	}
}

func clip(s string) string {
	if len(s) > 400 {
		return s[:400] + "..."
	}
	return s
}

func cat(parts ...[]byte) []byte {
	var r []byte
	for _, p := range parts {
		r = append(r, p...)
	}
	return r
}

// ---- SIP ---------------------------------------------------------------------------------------

func TestStaleSIP(t *testing.T) {
	resp := []byte("SIP/2.0 200 OK\r\nCSeq: 7 INVITE\r\nContent-Length: 0\r\n\r\n")
	req := []byte("REGISTER sip:bob@example.com SIP/2.0\r\nVia: SIP/2.0/UDP there.com:5060\r\n\r\nbody")
	// response, then request: IsResponse / ResponseCode / ResponseStatus / cseq / contentLength
	// (-> empty Payload instead of "body") / lastHeaderParsed and the headers of A survive
	staleCheck(t, "SIP response then request", NewSIP(), NewSIP(), resp, req)
	// request, then response without CSeq: Method and RequestURI survive
	resp2 := []byte("SIP/2.0 180 Ringing\r\nVia: x\r\n\r\n")
	staleCheck(t, "SIP request then response", NewSIP(), NewSIP(), req, resp2)
	// anything, then an empty message (decodes successfully, marked truncated): everything survives, Version too
	staleCheck(t, "SIP request then empty message", NewSIP(), NewSIP(), req, []byte{})
}

// ---- IGMP --------------------------------------------------------------------------------------

func TestStaleIGMP(t *testing.T) {
	report := []byte{0x22, 0, 0xab, 0xcd, 0, 0, 0, 1, // 1 group record
		1, 0, 0, 1, 224, 0, 0, 9, 10, 0, 0, 1}
	query0 := []byte{0x11, 0x0a, 0x12, 0x34, 224, 0, 0, 1, 0x0a, 0x05, 0, 0}
	query1 := []byte{0x11, 0x0a, 0x12, 0x34, 224, 0, 0, 1, 0x0a, 0x05, 0, 1, 10, 0, 0, 2}
	staleCheck(t, "IGMPv3 report then query", &IGMP{}, &IGMP{}, report, query0)         // NumberOfGroupRecords, GroupRecords
	staleCheck(t, "IGMPv3 query then report", &IGMP{}, &IGMP{}, query1, report)         // MaxResponseTime, GroupAddress, S, QRV, QQIC, NumberOfSources, SourceAddresses
	staleCheck(t, "IGMPv3 query twice", &IGMP{}, &IGMP{}, query1, query1)               // SourceAddresses accumulate
	staleCheck(t, "IGMPv3 report twice", &IGMP{}, &IGMP{}, report, report)              // GroupRecords accumulate
	staleCheck(t, "IGMPv3 report then short report", &IGMP{}, &IGMP{}, report, report[:4]) // Checksum etc. (helper error is dropped)
}

// ---- IPv6 destination options -------------------------------------------------------------------

func TestStaleIPv6Destination(t *testing.T) {
	opt := []byte{59, 0, 1, 4, 0, 0, 0, 0} // next header none, length 8, one PadN option
	staleCheck(t, "IPv6Destination twice", &IPv6Destination{}, &IPv6Destination{}, opt, opt)
}

// IPv6.hbh is a private scratch object that is only reachable through IPv6.HopByHop, and HopByHop
// is set to nil unless hbh has just been decoded again: the public result is the same.
func TestStaleIPv6HopByHopScratchNotObservable(t *testing.T) {
	hdr := func(next byte, plen int) []byte {
		h := make([]byte, 40)
		h[0] = 0x60
		binary.BigEndian.PutUint16(h[4:6], uint16(plen))
		h[6], h[7] = next, 64
		h[23], h[39] = 1, 2
		return h
	}
	withHbh := cat(hdr(0, 12), []byte{59, 0, 1, 4, 0, 0, 0, 0}, []byte{1, 2, 3, 4})
	plain := cat(hdr(59, 4), []byte{1, 2, 3, 4})
	reused, fresh := &IPv6{}, &IPv6{}
	for _, p := range [][]byte{withHbh, plain} {
		if err := reused.DecodeFromBytes(p, gopacket.NilDecodeFeedback); err != nil {
			t.Fatal(err)
		}
	}
	if err := fresh.DecodeFromBytes(plain, gopacket.NilDecodeFeedback); err != nil {
		t.Fatal(err)
	}
	d := staleDiff(reused, fresh)
	for _, f := range d {
		if len(f) < 4 || f[:4] != "hbh." {
			t.Errorf("IPv6: public field %s differs", f)
		}
	}
	if reused.HopByHop != nil || reused.NextLayerType() != fresh.NextLayerType() {
		t.Errorf("IPv6: HopByHop / NextLayerType differ")
	}
	t.Logf("private scratch fields that differ (not observable): %v", d)
	// and the scratch object is completely rewritten when it becomes visible again
	staleCheck(t, "IPv6 hbh twice", &IPv6{}, &IPv6{}, withHbh, withHbh)
}

// ---- MDP ---------------------------------------------------------------------------------------

func TestStaleMDP(t *testing.T) {
	pre := make([]byte, 28)
	tlv := func(typ byte, v string) []byte { return cat([]byte{typ, byte(len(v))}, []byte(v)) }
	full := cat(pre, tlv(MdpTlvDeviceInfo, "MR18"), tlv(MdpTlvNetworkInfo, "net"), tlv(MdpTlvLongitude, "-122.5"),
		tlv(MdpTlvLatitude, "37.5"), tlv(MdpTlvType6, "u6"), tlv(MdpTlvType7, "u7"), tlv(MdpTlvIP, "10.0.0.1"),
		tlv(MdpTlvUnknownBool, "true"))
	staleCheck(t, "MDP with TLVs then MDP without", &MDP{}, &MDP{}, full, pre)
}

// ---- CIP ---------------------------------------------------------------------------------------

func TestStaleCIP(t *testing.T) {
	req := []byte{0x0e, 0x02, 0x20, 0x04, 0x24, 0x01, 0xaa, 0xbb} // class 4, instance 1, data aabb
	reqNoPath := []byte{0x0e, 0x01, 0x30, 0x30}                   // other segment types, no data
	resp := []byte{0x8e, 0x00, 0x05, 0x01, 0x34, 0x12, 0xcc}      // status 5, one additional status, data cc
	respShort := []byte{0x8e, 0x00, 0x00, 0x00}                   // status 0, no additional status, no data
	staleCheck(t, "CIP request then request without class/instance/data", &CIP{}, &CIP{}, req, reqNoPath) // ClassID InstanceID Data
	staleCheck(t, "CIP response then short response", &CIP{}, &CIP{}, resp, respShort)                    // AdditionalStatus Data
	staleCheck(t, "CIP response then request", &CIP{}, &CIP{}, resp, req)                                 // Status AdditionalStatus
	staleCheck(t, "CIP response twice", &CIP{}, &CIP{}, resp, resp)                                       // AdditionalStatus accumulates
}

// ---- USB ---------------------------------------------------------------------------------------

func TestStaleUSB(t *testing.T) {
	mk := func(setup, data byte, total int, urbDataLen uint32) []byte {
		b := make([]byte, total)
		b[8], b[9], b[14], b[15] = 'S', 2, setup, data
		binary.LittleEndian.PutUint32(b[36:40], urbDataLen)
		return b
	}
	staleCheck(t, "USB setup+data then neither", &USB{}, &USB{}, mk(0, 0, 48, 8), mk('-', '<', 40, 0)) // Setup, Data (NextLayerType)
	// a stale Data flag also moves the payload: data[42:] instead of data[40:]
	staleCheck(t, "USB data then no data", &USB{}, &USB{}, mk('-', 0, 44, 4), mk('-', '<', 44, 2))
}

// ---- DHCPv6 / DHCPv4 ---------------------------------------------------------------------------

func TestStaleDHCPv6(t *testing.T) {
	relay := make([]byte, 34)
	relay[0], relay[1] = byte(DHCPv6MsgTypeRelayForward), 3
	relay[2], relay[17], relay[18], relay[33] = 0xfe, 1, 0x20, 2
	solicit := []byte{byte(DHCPv6MsgTypeSolicit), 0xaa, 0xbb, 0xcc}
	staleCheck(t, "DHCPv6 relay-forward then solicit", &DHCPv6{}, &DHCPv6{}, relay, solicit) // HopCount LinkAddr PeerAddr
	staleCheck(t, "DHCPv6 solicit then relay-forward", &DHCPv6{}, &DHCPv6{}, solicit, relay) // TransactionID
}

func TestStaleDHCPv4(t *testing.T) {
	hdr := make([]byte, 240)
	hdr[0], hdr[1], hdr[2] = 1, 1, 6
	binary.BigEndian.PutUint32(hdr[236:240], DHCPMagic)
	withOpts := cat(hdr, []byte{53, 1, 1, 255})
	staleCheck(t, "DHCPv4 with options then without", &DHCPv4{}, &DHCPv4{}, withOpts, hdr) // Contents
}

// ---- EAPOLKey ----------------------------------------------------------------------------------

func TestStaleEAPOLKey(t *testing.T) {
	enc := make([]byte, 99)
	enc[0], enc[1], enc[94] = 2, 0x10, 4 // HasEncryptedKeyData, KeyDataLength 4
	copy(enc[95:], []byte{1, 2, 3, 4})
	plain := make([]byte, 95)
	plain[0] = 2
	staleCheck(t, "EAPOLKey with key data then without", &EAPOLKey{}, &EAPOLKey{}, enc, plain) // EncryptedKeyData
}

// ---- MLD ---------------------------------------------------------------------------------------

func TestStaleMLDv1Query(t *testing.T) {
	long := make([]byte, 24)
	long[4], long[20] = 0xff, 9
	staleCheck(t, "MLDv1 query with trailing bytes then exact", &MLDv1MulticastListenerQueryMessage{}, &MLDv1MulticastListenerQueryMessage{}, long, long[:20]) // Payload
}

func TestStaleMLDv2Query(t *testing.T) {
	q := make([]byte, 40)
	q[4], q[23], q[24] = 0xff, 1, 0x20 // one source
	staleCheck(t, "MLDv2 query twice", &MLDv2MulticastListenerQueryMessage{}, &MLDv2MulticastListenerQueryMessage{}, q, q) // SourceAddresses accumulate
}

func TestStaleMLDv2Report(t *testing.T) {
	r := make([]byte, 24)
	r[3], r[4], r[8] = 1, 1, 0xff // one record, no sources
	staleCheck(t, "MLDv2 report twice", &MLDv2MulticastListenerReportMessage{}, &MLDv2MulticastListenerReportMessage{}, r, r) // MulticastAddressRecords accumulate
}

// ---- OSPF --------------------------------------------------------------------------------------

func TestStaleOSPF(t *testing.T) {
	hello2 := make([]byte, 44)
	hello2[0], hello2[1], hello2[3] = 2, 1, 44
	other2 := make([]byte, 24)
	other2[0], other2[1], other2[3] = 2, 9, 24 // unknown packet type: accepted, no content
	staleCheck(t, "OSPFv2 hello then unknown type", &OSPFv2{}, &OSPFv2{}, hello2, other2) // Content
	hello3 := make([]byte, 36)
	hello3[0], hello3[1], hello3[3] = 3, 1, 36
	other3 := make([]byte, 16)
	other3[0], other3[1], other3[3] = 3, 9, 16
	staleCheck(t, "OSPFv3 hello then unknown type", &OSPFv3{}, &OSPFv3{}, hello3, other3) // Content
}

// ---- RADIUS ------------------------------------------------------------------------------------

func TestStaleRADIUS(t *testing.T) {
	r := make([]byte, 26)
	r[0], r[1], r[3] = 1, 1, 26
	copy(r[20:], []byte{1, 6, 'u', 's', 'e', 'r'})
	staleCheck(t, "RADIUS twice", &RADIUS{}, &RADIUS{}, r, r)           // Attributes accumulate
	bare := make([]byte, 20)
	bare[0], bare[1], bare[3] = 1, 1, 20
	staleCheck(t, "RADIUS then no attributes", &RADIUS{}, &RADIUS{}, r, bare) // Attributes survive (early return)
}

// ---- RadioTap ----------------------------------------------------------------------------------

func TestStaleRadioTap(t *testing.T) {
	withFlags := []byte{0, 0, 9, 0, 0x02, 0, 0, 0, 0x10, 0xd4, 0, 0, 0} // Flags present: FCS at end
	noFields := []byte{0, 0, 8, 0, 0, 0, 0, 0, 0xd4, 0, 0, 0}           // nothing present
	// RadioTapValues accumulate, and RadioTapValues[0] (the flags of packet A) decides whether a
	// checksum is appended to the payload of packet B
	staleCheck(t, "RadioTap with FCS flag then without", &RadioTap{}, &RadioTap{}, withFlags, noFields)
	vendor := []byte{0, 0, 20, 0, 0x00, 0x00, 0x00, 0xc0, 0, 0, 0, 0, 0xaa, 0xbb, 0xcc, 0, 1, 0, 0, 0, 0xd4, 0, 0, 0}
	if err := (&RadioTap{}).DecodeFromBytes(vendor, gopacket.NilDecodeFeedback); err == nil {
		staleCheck(t, "RadioTap vendor namespace twice", &RadioTap{}, &RadioTap{}, vendor, vendor) // VendorValues accumulate
	} else {
		t.Logf("vendor namespace probe not decodable (%v): skipped", err)
	}
}

// ---- SFlow -------------------------------------------------------------------------------------

func TestStaleSFlow(t *testing.T) {
	datagram := func(frame []byte) []byte {
		p := gopacket.NewPacket(frame, LayerTypeEthernet, gopacket.Default)
		if p.TransportLayer() == nil {
			t.Fatal("no transport layer in the sFlow test frame")
		}
		return p.TransportLayer().LayerPayload()
	}
	d1, d2 := datagram(SFlowTestPacket1), datagram(SFlowTestPacket2)
	staleCheck(t, "SFlow flow samples then counter samples", &SFlowDatagram{}, &SFlowDatagram{}, d1, d2) // FlowSamples / CounterSamples accumulate
	staleCheck(t, "SFlow twice", &SFlowDatagram{}, &SFlowDatagram{}, d1, d1)
}

// ---- TCP ---------------------------------------------------------------------------------------

func TestStaleTCPMultipath(t *testing.T) {
	plain := make([]byte, 20)
	plain[12] = 5 << 4
	mp := make([]byte, 24)
	mp[12] = 6 << 4
	copy(mp[20:], []byte{30, 4, 0x01, 0x81}) // MP_CAPABLE (SYN)
	// opts is the private backing array of Options (contents beyond len(Options) are not observable)
	staleCheck(t, "TCP with MPTCP option then without", &TCP{}, &TCP{}, mp, plain, "opts") // Multipath
}

// ---- ENIP (no stale state: getPayload assigns CommandSpecific and the base layer on every successful path) ------

func TestStaleENIPNone(t *testing.T) {
	hdr := func(cmd uint16, rest ...byte) []byte {
		h := make([]byte, 24)
		binary.LittleEndian.PutUint16(h[0:2], cmd)
		h[12] = 0x11
		return append(h, rest...)
	}
	register := hdr(uint16(ENIPCommandRegisterSession), 1, 0, 0, 0, 0xee)
	rrdata := hdr(uint16(ENIPCommandSendRRData), 0, 0, 0, 0, 0, 0, 1, 0, 0, 0, 0, 0, 0xdd, 0xdd) // one null address item
	other := hdr(0x0004, 9, 9)
	for _, a := range [][]byte{register, rrdata, other} {
		for _, b := range [][]byte{register, rrdata, other} {
			staleCheck(t, "ENIP pair", &ENIP{}, &ENIP{}, a, b)
		}
	}
}
