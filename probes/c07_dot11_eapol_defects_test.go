package layers

import (
	"bytes"
	"net"
	"testing"

	"github.com/gopacket/gopacket"
)

// serializeDirty serializes l twice: into a fresh buffer and into a buffer that held 0xAA bytes and was Clear()ed.
func ag9SerializeBoth(t *testing.T, l gopacket.SerializableLayer, payload []byte) (fresh, dirty []byte, errFresh, errDirty error) {
	opts := gopacket.SerializeOptions{}
	fb := gopacket.NewSerializeBuffer()
	if len(payload) > 0 {
		p, _ := fb.PrependBytes(len(payload))
		copy(p, payload)
	}
	errFresh = l.SerializeTo(fb, opts)
	fresh = append([]byte(nil), fb.Bytes()...)

	db := gopacket.NewSerializeBuffer()
	junk, _ := db.PrependBytes(256)
	for i := range junk {
		junk[i] = 0xAA
	}
	db.Clear()
	if len(payload) > 0 {
		p, _ := db.PrependBytes(len(payload))
		copy(p, payload)
	}
	errDirty = l.SerializeTo(db, opts)
	dirty = append([]byte(nil), db.Bytes()...)
	return
}

func TestAg9Dot11ReassocReqShortAddress(t *testing.T) {
	l := &Dot11MgmtReassociationReq{CapabilityInfo: 1, ListenInterval: 2, CurrentApAddress: net.HardwareAddr{1, 2, 3}}
	fresh, dirty, e1, e2 := ag9SerializeBoth(t, l, nil)
	if e1 != nil || e2 != nil {
		t.Fatal(e1, e2)
	}
	if !bytes.Equal(fresh, dirty) {
		t.Errorf("output depends on old buffer contents:\nfresh %x\ndirty %x", fresh, dirty)
	}
}

func TestAg9EAPOLKeyShortFields(t *testing.T) {
	l := &EAPOLKey{KeyDescriptorType: 2, Nonce: []byte{1, 2}, IV: nil, MIC: []byte{9}}
	fresh, dirty, e1, e2 := ag9SerializeBoth(t, l, nil)
	if e1 != nil || e2 != nil {
		t.Fatal(e1, e2)
	}
	if !bytes.Equal(fresh, dirty) {
		t.Errorf("output depends on old buffer contents:\nfresh %x\ndirty %x", fresh, dirty)
	}
}

func TestAg9Dot11CtrlDirty(t *testing.T) {
	// an ACK frame has a 10 byte header: frame control, duration, receiver address
	l := &Dot11{Type: Dot11TypeCtrlAck, Address1: net.HardwareAddr{1, 2, 3, 4, 5, 6}}
	fresh, dirty, e1, e2 := ag9SerializeBoth(t, l, nil)
	if e1 != nil || e2 != nil {
		t.Fatal(e1, e2)
	}
	if !bytes.Equal(fresh, dirty) {
		t.Errorf("output depends on old buffer contents:\nfresh %x\ndirty %x", fresh, dirty)
	}
}

func TestAg9Dot11FourAddressOverwritesPayload(t *testing.T) {
	a := net.HardwareAddr{1, 2, 3, 4, 5, 6}
	l := &Dot11{Type: Dot11TypeData, Flags: Dot11FlagsToDS | Dot11FlagsFromDS, Address1: a, Address2: a, Address3: a,
		Address4: net.HardwareAddr{0xE1, 0xE2, 0xE3, 0xE4, 0xE5, 0xE6}}
	payload := []byte{0x50, 0x51, 0x52, 0x53, 0x54, 0x55, 0x56, 0x57}
	defer func() {
		if r := recover(); r != nil {
			t.Errorf("panic: %v", r)
		}
	}()
	fresh, _, e1, _ := ag9SerializeBoth(t, l, payload)
	if e1 != nil {
		t.Fatal(e1)
	}
	if !bytes.HasSuffix(fresh, payload) {
		t.Errorf("payload %x was overwritten: output %x", payload, fresh)
	}
	if !bytes.Contains(fresh, l.Address4) {
		t.Errorf("Address4 missing")
	}
}

func TestAg9Dot11FourAddressNoPayloadPanics(t *testing.T) {
	a := net.HardwareAddr{1, 2, 3, 4, 5, 6}
	l := &Dot11{Type: Dot11TypeData, Flags: Dot11FlagsToDS | Dot11FlagsFromDS, Address1: a, Address2: a, Address3: a, Address4: a}
	defer func() {
		if r := recover(); r != nil {
			t.Errorf("panic: %v", r)
		}
	}()
	b := gopacket.NewSerializeBufferExpectedSize(24, 0)
	if err := l.SerializeTo(b, gopacket.SerializeOptions{}); err != nil {
		t.Fatal(err)
	}
	if len(b.Bytes()) != 30 {
		t.Errorf("4-address data header is 30 bytes, got %d", len(b.Bytes()))
	}
}
